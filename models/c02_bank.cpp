// C02 — untrusted bank data is rejected or loaded safely; loaded banks are playable (E2).
#include "player.hpp"
#include "enumx.hpp"

namespace {

enum { T_ACCEPT, T_REJECT, T_PLAYED, T_RENDERED, T_NT };
static const std::vector<std::string> TAGS = {"loader_accepted", "loader_rejected", "notes_played", "audio_rendered_on_real_core"};

static std::vector<uint8_t> g_v2, g_v1, g_opni2, g_opni1;

static std::vector<uint8_t> valid_bank(int version) {
    pl::BankSpec m; pl::InsSpec a; a.id = 1; m.ins[0] = a; pl::InsSpec b; b.id = 2; b.note_offset = 12; m.ins[1] = b; m.msb = 0; m.lsb = 0;
    pl::BankSpec p; p.percussive = true; pl::InsSpec d; d.id = 3; d.drum_key = 40; p.ins[35] = d; p.ins[60] = d;
    return pl::make_wopn({m, p}, 9, 0, 0, version);
}
static std::vector<uint8_t> valid_opni(int version) {
    OPNIFile x; memset(&x, 0, sizeof x); pl::InsSpec s; s.id = 5; pl::fill_ins(x.inst, s); x.is_drum = 0;
    std::vector<uint8_t> v(WOPN_CalculateInstFileSize(&x, (uint16_t)version));
    WOPN_SaveInstToMem(&x, v.data(), v.size(), (uint16_t)version);
    if(version == 1) v.resize(11 + 1 + 65);
    return v;
}

// loader on an exact-size heap block
static void load_bank_exact(const uint8_t *d, size_t n, en::CaseOut &o) {
    uint8_t *blk = (uint8_t *)malloc(n ? n : 1); if(n) memcpy(blk, d, n);
    int err = -12345; WOPNFile *f = WOPN_LoadBankFromMem(blk, n, &err);
    free(blk);
    if(f) { o.tags |= 1ull << T_ACCEPT; o.nontrivial = true; WOPN_Free(f); }
    else { o.tags |= 1ull << T_REJECT; if(err < WOPN_ERR_BAD_MAGIC || err > WOPN_ERR_NULL_POINTER) o.fail("C02/bank-loader/undefined-error", "WOPN_LoadBankFromMem returned NULL with error code " + std::to_string(err)); }
}
static void load_inst_exact(const uint8_t *d, size_t n, en::CaseOut &o) {
    uint8_t *blk = (uint8_t *)malloc(n ? n : 1); if(n) memcpy(blk, d, n);
    OPNIFile f; memset(&f, 0, sizeof f);
    int rc = WOPN_LoadInstFromMem(&f, blk, n);
    free(blk);
    if(rc == 0) { o.tags |= 1ull << T_ACCEPT; o.nontrivial = true; }
    else { o.tags |= 1ull << T_REJECT; if(rc < WOPN_ERR_BAD_MAGIC || rc > WOPN_ERR_NULL_POINTER) o.fail("C02/inst-loader/undefined-error", "WOPN_LoadInstFromMem returned " + std::to_string(rc)); }
}

// the play matrix on an instance whose bank is already in place
static void play_matrix(pl::Instance &I, bool full, en::CaseOut &o) {
    OPN2_MIDIPlayer *d = I.dev;
    static const int keys[] = {0, 60, 127};
    static const int bends[] = {0, 8191, 16383};
    static const int ranges[][2] = {{2, 0}, {24, 0}, {127, 127}};
    static const int bright[] = {0, 63, 64, 127};
    int nmodels = full ? 5 : 1, nbright = full ? 4 : 1;
    for(int vm = 0; vm < nmodels; vm++) {
        opn2_setVolumeRangeModel(d, vm + 1);
        for(int bi = 0; bi < nbright; bi++) {
            for(int chsel = 0; chsel < 2; chsel++) {
                int ch = chsel ? 9 : 0;
                opn2_rt_controllerChange(d, (OPN2_UInt8)ch, 74, (OPN2_UInt8)bright[full ? bi : 3]);
                for(auto &r : ranges) {
                    opn2_rt_controllerChange(d, (OPN2_UInt8)ch, 101, 0); opn2_rt_controllerChange(d, (OPN2_UInt8)ch, 100, 0);
                    opn2_rt_controllerChange(d, (OPN2_UInt8)ch, 6, (OPN2_UInt8)r[0]); opn2_rt_controllerChange(d, (OPN2_UInt8)ch, 38, (OPN2_UInt8)r[1]);
                    for(int k : keys) {
                        int key = chsel ? (k == 0 ? 35 : k == 60 ? 60 : 127) : k;
                        for(int b : bends) {
                            opn2_rt_pitchBend(d, (OPN2_UInt8)ch, (OPN2_UInt16)b);
                            opn2_rt_noteOn(d, (OPN2_UInt8)ch, (OPN2_UInt8)key, 100);
                            opn2_rt_pitchBend(d, (OPN2_UInt8)ch, (OPN2_UInt16)(16383 - b));
                            opn2_rt_noteOff(d, (OPN2_UInt8)ch, (OPN2_UInt8)key);
                        }
                    }
                }
            }
        }
    }
    I.generate_ms(35);
    opn2_panic(d);
    o.tags |= 1ull << T_PLAYED;
}

static OPN2_Instrument base_ins(int which) {
    OPN2_Instrument i; memset(&i, 0, sizeof i);
    i.fbalg = which == 0 ? 0x07 : which == 1 ? 0x34 : 0x3B; i.lfosens = (OPN2_UInt8)(which * 0x13);
    for(int op = 0; op < 4; op++) { i.operators[op].dtfm_30 = (OPN2_UInt8)(1 + which * 0x21); i.operators[op].level_40 = (OPN2_UInt8)(10 * op + which); i.operators[op].rsatk_50 = 0x1F; i.operators[op].amdecay1_60 = (OPN2_UInt8)(which * 9);
        i.operators[op].decay2_70 = (OPN2_UInt8)which; i.operators[op].susrel_80 = 0x0F; i.operators[op].ssgeg_90 = 0; }
    i.delay_on_ms = 300; i.delay_off_ms = 100; i.percussion_key_number = (OPN2_UInt8)(which == 2 ? 45 : 0);
    return i;
}
static uint32_t frange(int f) { return (f == 0 || f >= 32) ? 65536 : 256; }
static void set_field(OPN2_Instrument &w, int f, uint32_t v) {
    if(f == 0) w.note_offset = (OPN2_SInt16)(uint16_t)v; else if(f == 1) w.percussion_key_number = (OPN2_UInt8)v; else if(f == 2) w.fbalg = (OPN2_UInt8)v; else if(f == 3) w.lfosens = (OPN2_UInt8)v;
    else if(f < 32) ((uint8_t *)&w.operators[(f - 4) / 7])[(f - 4) % 7] = (uint8_t)v; else if(f == 32) w.delay_on_ms = (OPN2_UInt16)v; else if(f == 33) w.delay_off_ms = (OPN2_UInt16)v;
    else if(f == 34) w.midi_velocity_offset = (OPN2_SInt8)(uint8_t)v; else if(f == 35) w.inst_flags = (OPN2_UInt8)v;
}
static const char *fname(int f) { static const char *n[] = {"note_offset", "percussion_key_number", "fbalg", "lfosens"}; if(f < 4) return n[f]; if(f < 32) return "operator byte"; if(f == 32) return "delay_on_ms"; if(f == 33) return "delay_off_ms"; if(f == 34) return "midi_velocity_offset"; return "inst_flags"; }

static bool put_instrument(pl::Instance &I, const OPN2_Instrument &ins) {
    OPN2_BankId mid = {0, 0, 0}, pid = {1, 0, 0}; OPN2_Bank mb, pb;
    if(opn2_getBank(I.dev, &mid, OPNMIDI_Bank_Create, &mb) != 0 || opn2_getBank(I.dev, &pid, OPNMIDI_Bank_Create, &pb) != 0) return false;
    if(opn2_setInstrument(I.dev, &mb, 0, &ins) != 0) return false;
    const int pk[] = {35, 60, 127};
    for(int k : pk) if(opn2_setInstrument(I.dev, &pb, (unsigned)k, &ins) != 0) return false;
    return true;
}

} // namespace

int main(int argc, char **argv) {
    en::Args a = en::parse_args(argc, argv);
    bool thorough = a.tier == "thorough";
    pl::install_hooks(true);
    g_v2 = valid_bank(2); g_v1 = valid_bank(1); g_opni2 = valid_opni(2); g_opni1 = valid_opni(1);
    std::vector<en::Family> fams;

    { en::Family F; F.name = "bank_prefixes"; F.count = g_v2.size() + 1 + g_v1.size() + 1; F.chunk = 512; F.describe = "every prefix length 0..N of a valid 1+1 bank, version 2 (N=" + std::to_string(g_v2.size()) + ") and version 1 (N=" + std::to_string(g_v1.size()) + "), on an exact-size heap block";
      F.run = [](uint64_t i, en::CaseOut &o) { bool v1 = i > g_v2.size(); size_t n = v1 ? (size_t)(i - g_v2.size() - 1) : (size_t)i; const std::vector<uint8_t> &b = v1 ? g_v1 : g_v2;
        if(n == 0) o.sample = std::string("prefix lengths 0..N of the v") + (v1 ? "1" : "2") + " bank"; load_bank_exact(b.data(), n, o); };
      fams.push_back(F); }
    { en::Family F; F.name = "opni_prefixes"; F.count = g_opni2.size() + 1 + g_opni1.size() + 1; F.chunk = 64; F.describe = "every prefix length of valid OPNI files v2/v1";
      F.run = [](uint64_t i, en::CaseOut &o) { bool v1 = i > g_opni2.size(); size_t n = v1 ? (size_t)(i - g_opni2.size() - 1) : (size_t)i; const std::vector<uint8_t> &b = v1 ? g_opni1 : g_opni2; load_inst_exact(b.data(), n, o); };
      fams.push_back(F); }
    { en::Family F; F.name = "header_bytes"; F.count = (18 + 16) * 256 + (13 + 12) * 256; F.chunk = 64; F.budget_s = 20; F.describe = "each of the first 18 (bank v2), 16 (bank v1), 13 (OPNI v2), 12 (OPNI v1) header bytes x all 256 values";
      F.run = [](uint64_t i, en::CaseOut &o) { unsigned v = i % 256; uint64_t p = i / 256; std::vector<uint8_t> b; bool inst = false;
        if(p < 18) b = g_v2; else if(p < 34) { b = g_v1; p -= 18; } else if(p < 47) { b = g_opni2; p -= 34; inst = true; } else { b = g_opni1; p -= 47; inst = true; }
        if(b[p] == v) { o.skip = true; return; } b[p] = (uint8_t)v; o.input_hex = vu::hex(b.data(), 20);
        if(inst) load_inst_exact(b.data(), b.size(), o); else load_bank_exact(b.data(), b.size(), o); };
      fams.push_back(F); }
    { en::Family F; F.name = "version_field"; F.count = 65536 * 2; F.chunk = 2048; F.describe = "the 16-bit version field over all 65536 values under the v2 bank magic and the v2 OPNI magic (body of a valid file)";
      F.run = [](uint64_t i, en::CaseOut &o) { bool inst = i >= 65536; uint16_t v = (uint16_t)(i & 0xFFFF); std::vector<uint8_t> b = inst ? g_opni2 : g_v2; b[11] = (uint8_t)(v & 255); b[12] = (uint8_t)(v >> 8);
        if(inst) load_inst_exact(b.data(), b.size(), o); else load_bank_exact(b.data(), b.size(), o);
        if(!o.bad && v > 2 && (o.tags & (1ull << T_ACCEPT))) o.fail("C02/newer-version-accepted", "version " + std::to_string(v) + " accepted"); };
      fams.push_back(F); }
    { static const unsigned CN[] = {0, 1, 2, 3, 64, 65, 0x7FFF, 0xFFFF};
      en::Family F; F.name = "bank_counts"; F.count = 8 * 8 * 3 * 2; F.chunk = 1; F.budget_s = 60; F.describe = "(melodic, percussive) bank counts over {0,1,2,3,64,65,0x7FFF,0xFFFF}^2 x body {exact, one byte short, one byte long} (body capped at 1 MiB: larger declarations can only be short) x version {1,2}";
      F.run = [](uint64_t i, en::CaseOut &o) { unsigned m = CN[i % 8], p = CN[(i / 8) % 8], bodysel = (i / 64) % 3; int ver = (i / 192) ? 2 : 1;
        std::vector<uint8_t> b; const char *mg = ver == 2 ? "WOPN2-B2NK" : "WOPN2-BANK"; b.insert(b.end(), mg, mg + 11); if(ver == 2) { b.push_back(2); b.push_back(0); }
        b.push_back((uint8_t)(m >> 8)); b.push_back((uint8_t)m); b.push_back((uint8_t)(p >> 8)); b.push_back((uint8_t)p); b.push_back(0x0B);
        size_t need = (size_t)(m + p) * ((ver == 2 ? 34 : 0) + (size_t)(ver == 2 ? 69 : 65) * 128);
        size_t cap = 1u << 20; size_t body = need <= cap ? need : cap; if(need <= cap) { if(bodysel == 1) { if(body == 0) { o.skip = true; return; } body--; } else if(bodysel == 2) body++; } else if(bodysel) { o.skip = true; return; }
        for(size_t k = 0; k < body; k++) b.push_back((uint8_t)(k * 31 + 7));
        o.sample = "counts " + std::to_string(m) + "+" + std::to_string(p) + " version " + std::to_string(ver) + " body " + std::to_string(body) + " of " + std::to_string(need);
        load_bank_exact(b.data(), b.size(), o);
        if(!o.bad && body < need && (o.tags & (1ull << T_ACCEPT))) o.fail("C02/short-body-accepted", o.sample); };
      fams.push_back(F); }
    { static const uint8_t SG[] = {0x00, 0x01, 0x02, 0x03, 0x40, 0x7F, 0x80, 0xFF}; int L = thorough ? 6 : 4; uint64_t tot = 0, pw = 1; for(int l = 0; l <= L; l++) { tot += pw; pw *= 8; }
      en::Family F; F.name = "tails"; F.count = tot * 2; F.chunk = 1024; F.budget_s = 60; F.describe = "every string over {00,01,02,03,40,7F,80,FF} up to length " + std::to_string(L) + " after the v2 magic (as version/count header) and after the v1 magic";
      F.run = [L](uint64_t i, en::CaseOut &o) { bool v1 = (i & 1); uint64_t r = i >> 1; int len = 0; uint64_t pw2 = 1; while(r >= pw2) { r -= pw2; pw2 *= 8; len++; }
        std::vector<uint8_t> b; const char *mg = v1 ? "WOPN2-BANK" : "WOPN2-B2NK"; b.insert(b.end(), mg, mg + 11); for(int k = 0; k < len; k++) { b.push_back(SG[r % 8]); r /= 8; }
        o.input_hex = vu::hex(b.data() + 11, b.size() - 11); (void)L; load_bank_exact(b.data(), b.size(), o); };
      fams.push_back(F); }
    // ---- wide seam: opn2_openBankData, then play on what was accepted ----------------------------
    { en::Family F; F.name = "api_hostile_banks"; F.count = 69 * 256 + 18 * 256 + 400; F.chunk = 16; F.budget_s = 10; F.describe = "opn2_openBankData: each of the 69 bytes of melodic instrument 0 and each of the 18 header bytes of a valid v2 file x 256 values, and 400 truncation lengths; accepted banks then play the key x bend x range matrix on a melodic and a percussion channel";
      F.run = [](uint64_t i, en::CaseOut &o) { std::vector<uint8_t> b = g_v2; size_t insoff = 11 + 2 + 5 + 2 * 34;
        if(i < 69 * 256) { size_t pos = insoff + (size_t)(i / 256); if(b[pos] == (uint8_t)(i % 256)) { o.skip = true; return; } b[pos] = (uint8_t)(i % 256); }
        else if(i < (69 + 18) * 256) { uint64_t r = i - 69 * 256; size_t pos = (size_t)(r / 256); if(b[pos] == (uint8_t)(r % 256)) { o.skip = true; return; } b[pos] = (uint8_t)(r % 256); }
        else { uint64_t r = i - (69 + 18) * 256; b.resize((size_t)(r * (g_v2.size() / 399)) > g_v2.size() ? g_v2.size() : (size_t)(r * (g_v2.size() / 399))); }
        pl::Instance I; I.create(44100); opn2_setNumChips(I.dev, 1);
        uint8_t *blk = (uint8_t *)malloc(b.size() ? b.size() : 1); memcpy(blk, b.data(), b.size());
        int rc = opn2_openBankData(I.dev, blk, (long)b.size()); free(blk);
        if(rc == 0) { o.tags |= 1ull << T_ACCEPT; o.nontrivial = true; play_matrix(I, false, o); }
        else { o.tags |= 1ull << T_REJECT; if(rc != -1) o.fail("C02/api/undefined-return", "opn2_openBankData returned " + std::to_string(rc)); const char *e = opn2_errorInfo(I.dev); if(!e || !*e) o.fail("C02/api/empty-error-text", "rejected bank left an empty error text"); } };
      fams.push_back(F); }
    { uint64_t tot = 0; for(int f = 0; f < 36; f++) tot += frange(f);
      en::Family F; F.name = "instrument_fields"; F.count = tot * 3 + 65536 * 3; F.chunk = 256; F.budget_s = 3; F.describe = "opn2_setInstrument: each of the 36 instrument fields over its full range (16-bit: 65536, bytes: 256) one at a time x 3 base instruments (the note offset also under the OPNA chip family); then keys {0,60,127} x bends {0,8191,16383} x bend range {2,24,127.99} on a melodic and a percussion channel (all 5 volume models x 4 brightness values for the byte fields)";
      F.run = [tot](uint64_t i, en::CaseOut &o) { bool opna = i >= tot * 3;   // the last 3 x 65536 indices: the note offset once more with the OPNA chip family (its own tone-to-frequency constants)
        uint64_t r = opna ? (i - tot * 3) % 65536 : i % tot; int base = opna ? (int)((i - tot * 3) / 65536) : (int)(i / tot); int f = 0; if(!opna) while(r >= frange(f)) { r -= frange(f); f++; }
        OPN2_Instrument ins = base_ins(base); set_field(ins, f, (uint32_t)r);
        if(r == 0) o.sample = std::string(fname(f)) + " (#" + std::to_string(f) + ") := 0.." + std::to_string(frange(f) - 1) + " on base instrument " + std::to_string(base);
        o.input_hex = std::string(fname(f)) + "=" + std::to_string(r);
        pl::Instance I; I.create(44100); opn2_setNumChips(I.dev, 1);
        if(!put_instrument(I, ins)) { o.fail("C02/setInstrument-failed", "setInstrument refused a version-0 instrument"); return; }
        if(opna) { opn2_setChipType(I.dev, OPNMIDI_ChipType_OPNA); o.input_hex += " (OPNA family)"; if(!put_instrument(I, ins)) { o.fail("C02/setInstrument-failed", "setInstrument refused the instrument after the chip type change"); return; } }
        o.nontrivial = true;
        play_matrix(I, frange(f) == 256, o); };
      fams.push_back(F); }
    { static const int CORES_Q[] = {OPNMIDI_EMU_MAME, OPNMIDI_EMU_GENS, OPNMIDI_EMU_NP2};
      static const int CORES_T[] = {OPNMIDI_EMU_MAME, OPNMIDI_EMU_NUKED_YM3438, OPNMIDI_EMU_GENS, OPNMIDI_EMU_YMFM_OPN2, OPNMIDI_EMU_NP2, OPNMIDI_EMU_MAME_2608, OPNMIDI_EMU_YMFM_OPNA, OPNMIDI_EMU_NUKED_YM2612};
      int nc = thorough ? 8 : 3; const int *cores = thorough ? CORES_T : CORES_Q;
      en::Family F; F.name = "render_register_values"; F.count = (uint64_t)30 * 256 * (uint64_t)nc; F.chunk = 16; F.budget_s = 30; F.describe = "real emulator cores (" + std::to_string(nc) + "): each of the 28 operator bytes, fbalg and lfosens x all 256 values: note-on, 64-frame render, note-off, 64-frame render";
      F.run = [cores, nc](uint64_t i, en::CaseOut &o) { unsigned v = i % 256; int f = 2 + (int)((i / 256) % 30); int core = cores[(i / (256 * 30)) % (uint64_t)nc];
        OPN2_Instrument ins = base_ins(0); set_field(ins, f, v);
        pl::g_use_null_chips = false;
        { pl::Instance I; I.create(44100); opn2_setNumChips(I.dev, 1); opn2_switchEmulator(I.dev, core);
          if(put_instrument(I, ins)) { short buf[128]; opn2_rt_noteOn(I.dev, 0, 60, 100); opn2_rt_noteOn(I.dev, 9, 35, 100); opn2_generate(I.dev, 128, buf); opn2_rt_noteOff(I.dev, 0, 60); opn2_generate(I.dev, 128, buf); o.tags |= 1ull << T_RENDERED; o.nontrivial = true; }
          if(v == 0 && f == 2) o.sample = std::string("core ") + opn2_chipEmulatorName(I.dev) + ": register-image bytes := 0..255"; }
        pl::g_use_null_chips = true; };
      fams.push_back(F); }
    return en::run_main(argc, argv, "C02", fams, TAGS, "non-trivial: the loader accepted the string, or the instrument was installed and the note matrix / render ran to completion");
}
