// C12 — bank select + program change pick the documented instrument, with fallbacks.
// E2: all bank layouts over a 7-bank universe with blank patterns x all short select/program/mode
// histories x keys; lock-step reference resolver; the uploaded instrument is identified by signature
// bytes in the register tap.
#include "player.hpp"
#include "enumx.hpp"
#include "gen_music.hpp"

namespace {

typedef std::vector<uint8_t> Bytes;
enum { T_EXACT, T_FALLBACK_LSB, T_FALLBACK_BANK0, T_SILENT, T_PERC, T_NT };
static const std::vector<std::string> TAGS = {"exact_entry_played", "fallback_lsb_cleared", "fallback_bank0", "all_blank_rejected", "percussion_path"};

struct BankDef { bool perc; int msb, lsb; };   // bank number in the map = msb*256+lsb (+Perc)
static const int NB = 8;
static const BankDef BANKS[8] = { {false, 0, 0}, {false, 0, 1}, {false, 1, 0}, {false, 1, 1}, {true, 0, 0}, {true, 0, 5}, {true, 1, 5 /* SFX kit 5: map key 133 */}, {true, 1, 0 /* SFX kit 0: map key 128 */} };
// percussion bank numbers: program p -> bank p (lsb p); SFX (XG MSB 126): 128+p -> msb 1, lsb p
static int bank_number(int b) { return BANKS[b].msb * 256 + BANKS[b].lsb; }   // without the percussion tag; note 128+5 = 133 = msb 1? no: see below
// The map key is (msb << 8) | lsb where lsb is 7-bit; bank number 133 cannot be written as msb*256+lsb with lsb<128.
// libOPNMIDI computes bank = program + 128 = 133 and looks up key 133 directly; a WOPN bank with msb 1 / lsb 5 has key 261.
// So SFX kits are stored under lsb = 128+p, which only the bank API / file can express as (msb 0, lsb 133).

static int ins_id(int bank, int entry) { return 1 + bank * 2 + entry; }   // entry 0: program 0 / key 60 ; entry 1: program 5 / key 35

struct Layout { unsigned present; unsigned blankA; unsigned blankB; };   // bit i = bank i ; blankA: entry 1 blank, blankB: entry 0 blank

static std::vector<int> LATE_MODES = {1, 2, 0};
struct Hist { int mode; int ch; int msb, lsb; int program; int key; int path; int order; bool drumpart; };

static uint8_t roland_sum(const uint8_t *p, size_t n) { unsigned s = 0; for(size_t i = 0; i < n; i++) s += p[i] & 0x7F; return (uint8_t)((128 - (s & 127)) & 127); }

static Bytes make_layout_bank(const Layout &L, std::vector<int> &keys) {
    // built through the bank API afterwards; here only the always-present melodic 0/0 skeleton is produced as a file
    (void)L; (void)keys; pl::BankSpec m; pl::InsSpec s; s.id = 31; m.ins[127] = s; return pl::make_wopn({m});
}

static OPN2_Instrument api_ins(int id, int drum_key) {
    OPN2_Instrument i; memset(&i, 0, sizeof i); i.fbalg = 7; i.percussion_key_number = (OPN2_UInt8)drum_key;
    for(int op = 0; op < 4; op++) { i.operators[op].dtfm_30 = 1; i.operators[op].level_40 = 10; i.operators[op].rsatk_50 = 0x1F; i.operators[op].amdecay1_60 = (OPN2_UInt8)(id & 0x1F); i.operators[op].decay2_70 = 0; i.operators[op].susrel_80 = 0x0F; }
    i.delay_on_ms = 500; i.delay_off_ms = 100; return i;
}
static int drum_key_of(int bank, int entry) { return (bank == 5 && entry == 1) ? 50 : (bank == 4 && entry == 0) ? 0 : 40 + bank; }   // ids: bank 7 -> 15/16   // one entry without a drum key: pitch = MIDI key

static std::vector<uint8_t> g_base;
static std::map<int, std::pair<int, int>> g_pitch;   // tone -> (A4, A0) on the OPN2 family, from a reference run

struct Inst { pl::Instance I; unsigned present = 0, blankA = 0, blankB = 0; bool ok = false; };

static bool build(Inst &X, const Layout &L) {
    X.I.create(44100); OPN2_MIDIPlayer *d = X.I.dev;
    opn2_setNumChips(d, 1);
    if(opn2_openBankData(d, g_base.data(), (long)g_base.size()) != 0) return false;
    for(int b = 0; b < NB; b++) {
        if(!(L.present & (1u << b))) continue;
        OPN2_BankId id; id.percussive = BANKS[b].perc; id.msb = (OPN2_UInt8)BANKS[b].msb; id.lsb = (OPN2_UInt8)BANKS[b].lsb;
        if(b == 6) { id.msb = 0; id.lsb = 128 + 5 > 127 ? 0 : 0; }
        OPN2_Bank bk;
        if(b >= 6) {
            // SFX kits live under map keys Perc+128.., which opn2_getBank cannot address (lsb <= 127): insert directly
            size_t key = (size_t)(OPN2::PercussionTag + (b == 6 ? 133 : 128));
            OPN2::Bank nb; memset(&nb, 0, sizeof nb); for(int i = 0; i < 128; i++) nb.ins[i].flags = OpnInstMeta::Flag_NoSound;
            X.I.synth().m_insBanks.insert(std::make_pair(key, nb));
            OPN2::BankMap::iterator it = X.I.synth().m_insBanks.find(key); it.to_ptrs(bk.pointer);
        } else if(opn2_getBank(d, &id, OPNMIDI_Bank_Create, &bk) != 0) return false;
        for(int e = 0; e < 2; e++) {
            bool blank = e == 1 ? (L.blankA >> b) & 1 : (L.blankB >> b) & 1;
            if(blank) continue;
            int idx = BANKS[b].perc ? (e == 1 ? 35 : 60) : (e == 1 ? 5 : 0);
            OPN2_Instrument ins = api_ins(ins_id(b, e), BANKS[b].perc ? drum_key_of(b, e) : 0);
            if(opn2_setInstrument(d, &bk, (unsigned)idx, &ins) != 0) return false;
        }
    }
    X.present = L.present; X.blankA = L.blankA; X.blankB = L.blankB; X.ok = true;
    return true;
}

// reference resolver (statement + DESIGN.md C12): returns bank index/entry of the instrument that must be uploaded, or -1 (silent)
static int resolve(const Layout &L, const Hist &h, bool &perc_out, int &tone, uint64_t &tags) {
    bool xg = h.mode == 2, gs = h.mode == 1;
    bool perc = h.ch == 9 || (xg && (h.msb == 126 || h.msb == 127)) || h.drumpart;
    perc_out = perc;
    int entry_idx = perc ? h.key : h.program;
    int e = perc ? (h.key == 35 ? 1 : h.key == 60 ? 0 : -1) : (h.program == 5 ? 1 : h.program == 0 ? 0 : -1);
    long B;
    if(!perc) B = (h.msb == 0 && h.lsb == 0) ? 0 : (long)h.msb * 256 + (gs ? 0 : h.lsb);
    else B = h.program + ((xg && h.msb == 126) ? 128 : 0);
    (void)entry_idx;
    auto find_bank = [&](long num, bool pc) -> int { for(int b = 0; b < NB; b++) { if(!(L.present & (1u << b)) || BANKS[b].perc != pc) continue; long bn = b == 6 ? 133 : b == 7 ? 128 : bank_number(b); if(bn == num) return b; } return -1; };
    auto nonblank = [&](int b) { if(b < 0 || e < 0) return false; return !(e == 1 ? (L.blankA >> b) & 1 : (L.blankB >> b) & 1); };
    long cand[3] = {B, B & ~0x7FL, 0};
    for(int k = 0; k < 3; k++) {
        if(k > 0 && cand[k] == cand[k - 1]) continue;
        int b = find_bank(cand[k], perc);
        if(nonblank(b)) { tags |= 1ull << (k == 0 ? T_EXACT : k == 1 ? T_FALLBACK_LSB : T_FALLBACK_BANK0); if(perc) tags |= 1ull << T_PERC;
            int dk = perc ? drum_key_of(b, e) : 0; tone = perc ? (dk >= 1 && dk <= 127 ? dk : h.key) : h.key; return b * 2 + e; }
    }
    tags |= 1ull << T_SILENT;
    return -1;
}

static void apply_history(pl::Instance &I, const Hist &h) {
    OPN2_MIDIPlayer *d = I.dev;
    auto mode = [&]() { if(h.mode == 0) { uint8_t m[] = {0xF0, 0x7E, 0x7F, 0x09, 0x01, 0xF7}; opn2_rt_systemExclusive(d, m, sizeof m); }
        else if(h.mode == 1) { uint8_t m[] = {0xF0, 0x41, 0x10, 0x42, 0x12, 0x40, 0x00, 0x7F, 0x00, 0x41, 0xF7}; opn2_rt_systemExclusive(d, m, sizeof m); }
        else { uint8_t m[] = {0xF0, 0x43, 0x10, 0x4C, 0x00, 0x00, 0x7E, 0x00, 0xF7}; opn2_rt_systemExclusive(d, m, sizeof m); } };
    auto bank = [&]() { uint8_t ch = (uint8_t)h.ch;
        if(h.path == 0) { opn2_rt_controllerChange(d, ch, 0, (OPN2_UInt8)h.msb); opn2_rt_controllerChange(d, ch, 32, (OPN2_UInt8)h.lsb); }
        else if(h.path == 1) { opn2_rt_bankChangeMSB(d, ch, (OPN2_UInt8)h.msb); opn2_rt_bankChangeLSB(d, ch, (OPN2_UInt8)h.lsb); }
        else opn2_rt_bankChange(d, ch, (OPN2_SInt16)(h.msb * 256 + h.lsb)); };
    auto drum = [&]() { if(h.drumpart) { uint8_t m[] = {0xF0, 0x41, 0x10, 0x42, 0x12, 0x40, 0x14, 0x15, 0x01, 0x00, 0xF7}; m[9] = roland_sum(&m[5], 4); opn2_rt_systemExclusive(d, m, sizeof m); } };   // part 4 -> MIDI channel 3
    if(h.order == 0) { mode(); drum(); bank(); opn2_rt_patchChange(d, (OPN2_UInt8)h.ch, (OPN2_UInt8)h.program); }
    else if(h.order == 1) { mode(); drum(); opn2_rt_patchChange(d, (OPN2_UInt8)h.ch, (OPN2_UInt8)h.program); bank(); }
    else if(h.order == 2) { bank(); opn2_rt_patchChange(d, (OPN2_UInt8)h.ch, (OPN2_UInt8)h.program); mode(); }
    else if(h.order == 4) { // bank select in GM mode (or the GS drum part in GS mode), then XG System On, then the note with no further bank select
        uint8_t ch = (uint8_t)h.ch;
        if(h.drumpart) { uint8_t m[] = {0xF0, 0x41, 0x10, 0x42, 0x12, 0x40, 0x00, 0x7F, 0x00, 0x41, 0xF7}; opn2_rt_systemExclusive(d, m, sizeof m); drum(); }
        else { uint8_t m[] = {0xF0, 0x7E, 0x7F, 0x09, 0x01, 0xF7}; opn2_rt_systemExclusive(d, m, sizeof m); }
        bank(); opn2_rt_patchChange(d, ch, (OPN2_UInt8)h.program);
        { uint8_t m[] = {0xF0, 0x43, 0x10, 0x4C, 0x00, 0x00, 0x7E, 0x00, 0xF7}; opn2_rt_systemExclusive(d, m, sizeof m); } }
    else { // the mode message arrives between the bank MSB (sent in GS mode) and the bank LSB
        uint8_t ch = (uint8_t)h.ch; { uint8_t m[] = {0xF0, 0x41, 0x10, 0x42, 0x12, 0x40, 0x00, 0x7F, 0x00, 0x41, 0xF7}; opn2_rt_systemExclusive(d, m, sizeof m); }
        if(h.path == 1) opn2_rt_bankChangeMSB(d, ch, (OPN2_UInt8)h.msb); else opn2_rt_controllerChange(d, ch, 0, (OPN2_UInt8)h.msb);
        mode();
        if(h.path == 1) opn2_rt_bankChangeLSB(d, ch, (OPN2_UInt8)h.lsb); else opn2_rt_controllerChange(d, ch, 32, (OPN2_UInt8)h.lsb);
        opn2_rt_patchChange(d, ch, (OPN2_UInt8)h.program); }   // bank select under the power-on mode (XG), the mode message arrives afterwards: the mode in force at the note-on decides
}

static std::string hist_str(const Hist &h) {
    static const char *M[] = {"GM", "GS", "XG"}; static const char *P[] = {"CC0/CC32", "rt_bankChangeMSB/LSB", "rt_bankChange"};
    char b[200]; snprintf(b, sizeof b, "mode %s%s, channel %d, bank %d/%d via %s, program %d (%s), key %d", M[h.mode], h.drumpart ? " + GS drum part" : "", h.ch, h.msb, h.lsb, P[h.path], h.program, h.order == 4 ? "bank and program selected in GM mode (drum part: in GS mode), then XG System On" : h.order == 3 ? "bank MSB in GS mode, then the mode message, then bank LSB and program" : h.order == 2 ? "bank and program selected in XG mode before the mode message" : h.order ? "program before bank" : "bank before program", h.key);
    return b;
}
static std::string layout_str(const Layout &L) { std::string r = "banks:"; for(int b = 0; b < NB; b++) if(L.present & (1u << b)) { char t[64]; snprintf(t, sizeof t, " %s%d%s%s", BANKS[b].perc ? "P" : "M", b == 6 ? 133 : b == 7 ? 128 : bank_number(b), (L.blankA >> b) & 1 ? "[A blank]" : "", (L.blankB >> b) & 1 ? "[B blank]" : ""); r += t; } return r; }

static void check_note(Inst &X, const Layout &L, const Hist &h, en::CaseOut &o) {
    OPN2_MIDIPlayer *d = X.I.dev;
    opn2_panic(d); opn2_rt_resetState(d);
    for(int c = 0; c < 16; c++) { opn2_rt_bankChange(d, (OPN2_UInt8)c, 0); opn2_rt_patchChange(d, (OPN2_UInt8)c, 0); }
    { uint8_t m[] = {0xF0, 0x43, 0x10, 0x4C, 0x00, 0x00, 0x7E, 0x00, 0xF7}; opn2_rt_systemExclusive(d, m, sizeof m); }   // back to the power-on mode (XG), clears drum parts
    { uint8_t m[] = {0xF0, 0x41, 0x10, 0x42, 0x12, 0x40, 0x00, 0x7F, 0x00, 0x41, 0xF7}; opn2_rt_systemExclusive(d, m, sizeof m); uint8_t x[] = {0xF0, 0x43, 0x10, 0x4C, 0x00, 0x00, 0x7E, 0x00, 0xF7}; opn2_rt_systemExclusive(d, x, sizeof x); }
    apply_history(X.I, h);
    X.I.tap.log.clear();
    int ret = opn2_rt_noteOn(d, (OPN2_UInt8)h.ch, (OPN2_UInt8)h.key, 100);
    bool perc; int tone = 0; uint64_t tags = 0; int want = resolve(L, h, perc, tone, tags); o.tags |= tags;
    // what was uploaded: last write to 0x60+cc of operator 0 on any channel, and whether a key-on followed
    int got_id = -1, a4 = -1, a0 = -1; bool keyon = false;
    for(auto &w : X.I.tap.log) { if(w.kind) continue; if((w.reg & 0xF0) == 0x60 && (w.reg & 0x0C) == 0) got_id = w.val & 0x1F; if((w.reg & 0xFC) == 0xA4) a4 = w.val; if((w.reg & 0xFC) == 0xA0) a0 = w.val; if(w.reg == 0x28 && (w.val & 0xF0)) keyon = true; }
    std::string ctx = " [" + hist_str(h) + "; " + layout_str(L) + "]"; char b[300];
    if(want < 0) {
        if(ret != 0 || keyon) { snprintf(b, sizeof b, "every candidate entry is blank or missing, but the note was %s (instrument id %d)", keyon ? "keyed on" : "accepted", got_id); o.fail("C12/blank-note-played", b + ctx); return; }
    } else {
        int wid = ins_id(want / 2, want % 2);
        if(ret != 1 || !keyon) { snprintf(b, sizeof b, "expected instrument id %d (bank slot %d entry %d), the note was rejected / not keyed on", wid, want / 2, want % 2); o.fail(std::string("C12/note-rejected/") + (perc ? "percussion" : "melodic"), b + ctx); return; }
        if(got_id != (wid & 0x1F)) { snprintf(b, sizeof b, "instrument id %d was uploaded, the documented resolution gives id %d (bank slot %d entry %d)", got_id, wid, want / 2, want % 2);
            o.fail(std::string("C12/wrong-instrument/") + (perc ? "percussion" : "melodic") + (h.path == 0 ? "/cc" : h.path == 1 ? "/rt_bankChangeMSB-LSB" : "/rt_bankChange"), b + ctx); return; }
        auto it = g_pitch.find(tone);
        if(it != g_pitch.end() && (it->second.first != a4 || it->second.second != a0)) { snprintf(b, sizeof b, "pitch registers A4=%02X A0=%02X, expected those of tone %d (A4=%02X A0=%02X)", a4, a0, tone, it->second.first, it->second.second); o.fail(perc ? "C12/pitch/percussion" : "C12/pitch/melodic", b + ctx); return; }
    }
    o.nontrivial = true;
}

} // namespace

int main(int argc, char **argv) {
    en::Args a = en::parse_args(argc, argv);
    bool thorough = a.tier == "thorough";
    pl::install_hooks(true);
    std::vector<int> dummy; g_base = make_layout_bank(Layout(), dummy);
    { // reference pitch table: melodic instrument with no offset, every tone used
        pl::Instance R; R.create(44100); opn2_setNumChips(R.dev, 1); opn2_openBankData(R.dev, g_base.data(), (long)g_base.size());
        OPN2_BankId id = {0, 0, 0}; OPN2_Bank bk; opn2_getBank(R.dev, &id, OPNMIDI_Bank_Create, &bk); OPN2_Instrument ins = api_ins(30, 0); opn2_setInstrument(R.dev, &bk, 0, &ins);
        for(int t = 20; t < 100; t++) { R.tap.log.clear(); opn2_rt_noteOn(R.dev, 0, (OPN2_UInt8)t, 100); int a4 = -1, a0 = -1; for(auto &w : R.tap.log) { if((w.reg & 0xFC) == 0xA4) a4 = w.val; if((w.reg & 0xFC) == 0xA0) a0 = w.val; } g_pitch[t] = {a4, a0}; opn2_rt_noteOff(R.dev, 0, (OPN2_UInt8)t); }
    }
    // histories
    std::vector<Hist> hs;
    for(int mode = 0; mode < 3; mode++) for(int chs = 0; chs < 3; chs++) for(int path = 0; path < 3; path++) for(int order = 0; order < 2; order++) {
        int ch = chs == 0 ? 0 : chs == 1 ? 9 : 3; bool dp = chs == 2; if(dp && mode != 1) continue;       // the drum-part message belongs to GS
        std::vector<int> msbs = mode == 2 ? std::vector<int>{0, 1, 126, 127} : std::vector<int>{0, 1};
        for(int msb : msbs) for(int lsb = 0; lsb < 2; lsb++) for(int prog : {0, 5}) for(int key : {35, 60}) { Hist h; h.mode = mode; h.ch = ch; h.msb = msb; h.lsb = lsb; h.program = prog; h.key = key; h.path = path; h.order = order; h.drumpart = dp; hs.push_back(h); }
    }
    // mode message after the bank select (which happened in the power-on XG mode): final mode GS (a channel that XG made a drum channel is melodic again) and XG (stays as selected)
    for(int mode : LATE_MODES) for(int chs = 0; chs < 2; chs++) for(int path = 0; path < 3; path++) for(int msb : {0, 1, 126, 127}) for(int lsb = 0; lsb < 2; lsb++) for(int prog : {0, 5}) for(int key : {35, 60}) {
        Hist h; h.mode = mode; h.ch = chs == 0 ? 0 : 3; h.msb = msb; h.lsb = lsb; h.program = prog; h.key = key; h.path = path; h.order = 2; h.drumpart = false; hs.push_back(h); }
    // (final mode GM is left out here: the library also honours MSB 126/127 written while in GM mode, which the statement neither demands nor forbids)
    for(int mode : {1, 2}) for(int chs = 0; chs < 2; chs++) for(int path = 0; path < 2; path++) for(int msb : {0, 1, 126, 127}) for(int lsb = 0; lsb < 2; lsb++) for(int prog : {0, 5}) for(int key : {35, 60}) {
        Hist h; h.mode = mode; h.ch = chs == 0 ? 0 : 3; h.msb = msb; h.lsb = lsb; h.program = prog; h.key = key; h.path = path; h.order = 3; h.drumpart = false; hs.push_back(h); }
    // final mode XG reached from GM (bank select made there) or from GS (drum part made there)
    for(int dp = 0; dp < 2; dp++) for(int path = 0; path < 3; path++) for(int msb : {0, 1, 126, 127}) for(int lsb = 0; lsb < 2; lsb++) for(int prog : {0, 5}) for(int key : {35, 60}) {
        if(dp && (msb >= 126)) continue;
        Hist h; h.mode = 2; h.ch = 3; h.msb = msb; h.lsb = lsb; h.program = prog; h.key = key; h.path = path; h.order = 4; h.drumpart = dp != 0; hs.push_back(h); }
    static std::vector<Hist> HS; HS = hs;
    std::vector<en::Family> fams;
    { unsigned nblank = thorough ? 128 : 128; (void)nblank;
      en::Family F; F.name = "layouts_x_histories"; F.count = (uint64_t)128 * 256 * (thorough ? 4 : 2); F.chunk = 8; F.budget_s = 60; F.describe = "every subset of the 7 optional banks {melodic 0/1, 1/0, 1/1; percussion 0, 5, SFX 133, SFX 128} next to melodic 0/0 x every blank pattern of the entry program 5 / key 35 over the present banks x blank pattern of entry program 0 / key 60 in {none, bank 0/0 and percussion 0" + std::string(thorough ? ", all, alternating" : "") + "}; on each layout all " + std::to_string(hs.size()) + " histories: mode GM/GS/XG (+GS drum part) x channel x MSB/LSB x program x key x bank-select path {CC0/CC32, rt_bankChangeMSB/LSB, rt_bankChange} x order";
      F.run = [](uint64_t i, en::CaseOut &o) { Layout L; L.present = 1u | ((unsigned)(i % 128) << 1); L.blankA = (unsigned)((i / 128) % 256); unsigned bsel = (unsigned)(i / 128 / 256); L.blankB = bsel == 0 ? 0 : bsel == 1 ? 0x11 : bsel == 2 ? 0xFF : 0xAA;
        if(L.blankA & ~L.present) { o.skip = true; return; }   // blank bits of absent banks denote the same layout
        Inst X; if(!build(X, L)) { o.fail("C12/harness-build", "could not build the layout through the bank API"); return; }
        if(i % 1009 == 0) o.sample = layout_str(L) + " x " + std::to_string(HS.size()) + " histories, e.g. " + hist_str(HS[i % HS.size()]);
        for(auto &h : HS) { check_note(X, L, h, o); if(o.bad) return; }
        o.units = HS.size(); o.nontrivial = true; };
      fams.push_back(F); }
    { // banks taken away again through opn2_removeBank: "when that entry exists" must follow the removals (several banks share hash buckets of the bank map: melodic 0/0 with percussion 0, melodic 0/1 ... so the order of removals matters to the map)
      const uint64_t NP = 7 + 7 * 6 + (thorough ? 7 * 6 * 5 : 0);
      en::Family F; F.name = "layouts_after_removals"; F.count = NP * 2; F.chunk = 2; F.budget_s = 60; F.describe = std::string("the full 8-bank layout, then every single bank, every ordered pair") + (thorough ? " and every ordered triple" : "") + " of the 7 optional banks removed through opn2_removeBank x blank pattern {none, alternate}: every history must resolve as on the layout without those banks";
      F.run = [](uint64_t i, en::CaseOut &o) { uint64_t r = i / 2; Layout L; L.present = 0xFF; L.blankA = 0; L.blankB = (i & 1) ? 0xAA : 0; std::vector<int> rm;
        if(r < 7) rm = {(int)r + 1}; else if(r < 7 + 42) { uint64_t x = r - 7; int a = (int)(x / 6), b = (int)(x % 6); if(b >= a) b++; rm = {a + 1, b + 1}; }
        else { uint64_t x = r - 49; int a = (int)(x / 30), b = (int)((x / 5) % 6), c = (int)(x % 5); std::vector<int> pool; for(int k = 0; k < 7; k++) if(k != a) pool.push_back(k); int bb = pool[(size_t)b]; pool.erase(pool.begin() + b); int cc = pool[(size_t)c]; rm = {a + 1, bb + 1, cc + 1}; }
        Inst X; if(!build(X, L)) { o.fail("C12/harness-build", "could not build the layout through the bank API"); return; }
        std::string rs;
        for(int b : rm) { OPN2_Bank bk; OPN2::BankMap::iterator it = X.I.synth().m_insBanks.find((size_t)((b == 6 ? 133 : b == 7 ? 128 : bank_number(b)) + (BANKS[b].perc ? OPN2::PercussionTag : 0)));
            if(it == X.I.synth().m_insBanks.end()) { o.fail("C12/harness-build", "bank to remove not found"); return; } it.to_ptrs(bk.pointer);
            if(opn2_removeBank(X.I.dev, &bk) != 0) { o.fail("C12/remove-failed", "opn2_removeBank failed"); return; } L.present &= ~(1u << b); rs += " " + std::to_string(b); }
        o.sample = "removed bank slots" + rs + " from the full layout; " + layout_str(L);
        for(auto &h : HS) { check_note(X, L, h, o); if(o.bad) { return; } }
        o.units = HS.size(); o.nontrivial = true; };
      fams.push_back(F); }
    { // channel 10 of EVERY output port is the rhythm channel: a song that names two ports (device-name metas in different tracks) plays channel 10 of the second port (internal MIDI channel 25)
      en::Family F; F.name = "second_port_channel_10"; F.count = 16 * 4 * 2 * 2; F.chunk = 4; F.budget_s = 60; F.describe = "format-1 song with device names 'A' (track 0) and 'B' (track 1); track 1 sends program {0,5} and key {35,60} on channel 10 (and, as control, channel 1) of port B; x presence of percussion banks 0/5 and melodic 0/1 x blank patterns: the instrument uploaded must be the one the resolver gives for channel 10 / channel 1";
      F.run = [](uint64_t i, en::CaseOut &o) { uint64_t r = i; unsigned lay = (unsigned)(r % 16); r /= 16; unsigned bl = (unsigned)(r % 4); r /= 4; int prog = (r % 2) ? 5 : 0; r /= 2; int key = r ? 35 : 60;
        Layout L; L.present = 1u | ((lay & 1) ? 2u : 0) | ((lay & 2) ? 16u : 0) | ((lay & 4) ? 32u : 0) | ((lay & 8) ? 4u : 0); L.blankA = (bl & 1) ? (0x30 & L.present) : 0; L.blankB = (bl & 2) ? (0x10 & L.present) : 0;
        for(int chn : {9, 0}) {
            Inst X; if(!build(X, L)) { o.fail("C12/harness-build", "could not build the layout through the bank API"); return; }
            gm::Track t0, t1; t0.meta(0, 0x09, "A").ev(0, {0xB1, 7, 100}).eot(48); t1.meta(0, 0x09, "B").ev(0, {(uint8_t)(0xC0 | chn), (uint8_t)prog}).ev(10, {(uint8_t)(0x90 | chn), (uint8_t)key, 100}).eot(48);
            Bytes song = gm::smf(1, 96, {t0.d, t1.d});
            if(opn2_openData(X.I.dev, song.data(), (unsigned long)song.size()) != 0) { o.fail("C12/harness-build", std::string("two-port song rejected: ") + opn2_errorInfo(X.I.dev)); return; }
            X.I.tap.log.clear(); for(int k = 0; k < 20; k++) opn2_tickEvents(X.I.dev, 0.01, 1e-6);
            if(X.I.play()->m_midiChannels.size() < 32) { o.fail("C12/harness-build", "the song did not open a second port"); return; }
            Hist h; h.mode = 2; h.ch = chn; h.msb = 0; h.lsb = 0; h.program = prog; h.key = key; h.path = 0; h.order = 0; h.drumpart = false;
            bool perc; int tone = 0; uint64_t tags = 0; int want = resolve(L, h, perc, tone, tags); o.tags |= tags;
            int got_id = -1; bool keyon = false; for(auto &w : X.I.tap.log) { if(w.kind) continue; if((w.reg & 0xF0) == 0x60 && (w.reg & 0x0C) == 0) got_id = w.val & 0x1F; if(w.reg == 0x28 && (w.val & 0xF0)) keyon = true; }
            std::string ctx = " [song with two ports, channel " + std::to_string(chn + 1) + " of port B, program " + std::to_string(prog) + ", key " + std::to_string(key) + "; " + layout_str(L) + "]"; char b[300];
            if(want < 0) { if(keyon) { snprintf(b, sizeof b, "every candidate entry is blank or missing, but a note was keyed on (instrument id %d)", got_id); o.fail("C12/blank-note-played", b + ctx); return; } }
            else { int wid = ins_id(want / 2, want % 2);
                if(!keyon) { snprintf(b, sizeof b, "expected instrument id %d, no note was keyed on", wid); o.fail(std::string("C12/note-rejected/") + (perc ? "percussion" : "melodic"), b + ctx); return; }
                if(got_id != (wid & 0x1F)) { snprintf(b, sizeof b, "instrument id %d was uploaded, the documented resolution gives id %d (%s)", got_id, wid, perc ? "percussion: bank from the program, entry from the key" : "melodic"); o.fail(std::string("C12/wrong-instrument/") + (perc ? "percussion" : "melodic") + "/second-port", b + ctx); return; } } }
        o.sample = "two-port song, layout " + layout_str(L); o.units = 2; o.nontrivial = true; };
      fams.push_back(F); }
    { en::Family F; F.name = "replaced_instrument"; F.count = 7 * 2 * 3; F.chunk = 4; F.budget_s = 30; F.describe = "an entry replaced through opn2_setInstrument (each of the first 7 banks x 2 entries x {before any note, after playing the old one, while the old one sounds}) is the one played next";
      F.run = [](uint64_t i, en::CaseOut &o) { int b = (int)(i % 7), e = (int)((i / 7) % 2), when = (int)(i / 14); Layout L; L.present = 0xFF; L.blankA = 0; L.blankB = 0; Inst X; if(!build(X, L)) { o.fail("C12/harness-build", "build"); return; }
        OPN2_MIDIPlayer *d = X.I.dev; Hist h; h.mode = 2; h.drumpart = false; h.path = 0; h.order = 0;
        if(BANKS[b].perc) { h.ch = 9; h.msb = b == 6 ? 126 : 0; h.lsb = 0; h.program = b == 4 ? 0 : 5; h.key = e ? 35 : 60; if(b == 6) { h.ch = 2; } } else { h.ch = 0; h.msb = BANKS[b].msb; h.lsb = BANKS[b].lsb; h.program = e ? 5 : 0; h.key = 60; }
        apply_history(X.I, h);
        if(when >= 1) { opn2_rt_noteOn(d, (OPN2_UInt8)h.ch, (OPN2_UInt8)h.key, 100); if(when == 1) opn2_rt_noteOff(d, (OPN2_UInt8)h.ch, (OPN2_UInt8)h.key); }
        OPN2_Bank bk; OPN2::BankMap::iterator it = X.I.synth().m_insBanks.find((size_t)((b == 6 ? 133 : bank_number(b)) + (BANKS[b].perc ? OPN2::PercussionTag : 0))); it.to_ptrs(bk.pointer);
        OPN2_Instrument ni = api_ins(29, 0); int idx = BANKS[b].perc ? (e ? 35 : 60) : (e ? 5 : 0); opn2_setInstrument(d, &bk, (unsigned)idx, &ni);
        X.I.tap.log.clear(); int key2 = h.key; int ret = opn2_rt_noteOn(d, (OPN2_UInt8)h.ch, (OPN2_UInt8)key2, 100);
        int got_id = -1; for(auto &w : X.I.tap.log) if(!w.kind && (w.reg & 0xF0) == 0x60 && (w.reg & 0x0C) == 0) got_id = w.val & 0x1F;
        o.sample = "bank slot " + std::to_string(b) + " entry " + std::to_string(e) + " replaced, timing " + std::to_string(when);
        if(ret != 1 || got_id != 29) { char t[200]; snprintf(t, sizeof t, "after opn2_setInstrument the next note uploaded instrument id %d (return %d), expected the replacement (id 29) [%s]", got_id, ret, hist_str(h).c_str()); o.fail("C12/replaced-instrument-not-played", t); return; }
        o.nontrivial = true; };
      fams.push_back(F); }
    return en::run_main(argc, argv, "C12", fams, TAGS, "non-trivial: every history on the layout produced the instrument (or the rejection) the reference resolver predicts");
}
