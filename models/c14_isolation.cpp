// C14 — instances are deterministic and isolated, also across threads.
//  (a) solo digests of reference histories per core (compared across runs and across the pattern/zero
//      auto-variable initialisation flavours by the check driver)
//  (b) one thread: all interleavings of two / three instance histories at call granularity x all core pairs
//  (c) two real threads under the serialising scheduler (engine E3), all schedules with <= 2 preemptions
//      over API-call boundaries and the library's yield points
// Oracle: the observed instance's PCM and register stream equal its solo run bit for bit.
#include "player.hpp"
#include "enumx.hpp"
#include "sched.hpp"
#include "gen_music.hpp"

namespace {

static std::vector<uint8_t> g_bank;
static const int CORES[] = {OPNMIDI_EMU_MAME, OPNMIDI_EMU_NUKED_YM3438, OPNMIDI_EMU_GENS, OPNMIDI_EMU_YMFM_OPN2, OPNMIDI_EMU_NP2, OPNMIDI_EMU_MAME_2608, OPNMIDI_EMU_YMFM_OPNA, OPNMIDI_EMU_NUKED_YM2612};
static const char *CNAME[] = {"MAME-YM2612", "Nuked-YM3438", "GENS", "YMFM-OPN2", "NP2-OPNA", "MAME-YM2608", "YMFM-OPNA", "Nuked-YM2612"};
static const int NCORES = 8;
static bool g_thorough = false;

// An instance history of 4 calls: [create+configure] [note-on] [generate] [generate+close]
struct Cfg { int core; long rate; bool pcmrate; int key; int family = 0; Cfg(int c = 0, long r = 44100, bool p = false, int k = 60, int f = 0) : core(c), rate(r), pcmrate(p), key(k), family(f) {} };
struct Run {
    Cfg c; pl::Instance I; std::string pcm; int step = 0; vu::Ser regs;
    void call(int k) {
        static __thread short buf[2048];
        switch(k) {
        case 0: I.create(c.rate); I.tap.logging = true; opn2_switchEmulator(I.dev, c.core); opn2_setRunAtPcmRate(I.dev, c.pcmrate ? 1 : 0); opn2_setNumChips(I.dev, 1); opn2_openBankData(I.dev, g_bank.data(), (long)g_bank.size()); opn2_setChipType(I.dev, c.family); break;
        case 1: opn2_setLfoFrequency(I.dev, 5); opn2_setLfoEnabled(I.dev, 1);   // rewrites the LFO register after the other instance may have been created
                opn2_rt_noteOn(I.dev, 0, (OPN2_UInt8)c.key, 120); opn2_rt_noteOn(I.dev, 9, 40, 100); break;
        case 2: { int n = opn2_generate(I.dev, 1024, buf); pcm.append((const char *)buf, (size_t)n * 2); break; }
        case 3: { opn2_rt_pitchBend(I.dev, 0, 9000); int n = opn2_generate(I.dev, 1024, buf); pcm.append((const char *)buf, (size_t)n * 2);
                  for(auto &w : I.tap.log) { regs.u16(w.chip); regs.u8(w.port); regs.u16(w.reg); regs.u16(w.val); regs.u8(w.kind); } I.close(); break; }
        }
    }
    std::string digest() { vu::H128 a = vu::hash128(pcm), b = vu::hash128(regs.s); return vu::hex(&a, sizeof a) + ":" + vu::hex(&b, sizeof b); }
};
static std::string solo(const Cfg &c) { Run r; r.c = c; for(int k = 0; k < 4; k++) r.call(k); return r.digest(); }
static std::string cfg_str(const Cfg &c) { int ci = 0; for(int i = 0; i < NCORES; i++) if(CORES[i] == c.core) ci = i; char b[96]; snprintf(b, sizeof b, "%s@%ldHz%s%s key %d", CNAME[ci], c.rate, c.pcmrate ? " pcm-rate" : "", c.family ? " OPNA-family" : " OPN2-family", c.key); return b; }

// all interleavings of sequences of lengths n[0..k-1]: enumerated by index
static void interleavings(const std::vector<int> &n, std::vector<std::vector<int>> &out) {
    std::vector<int> cur, left = n; int total = 0; for(int x : n) total += x;
    std::function<void()> rec = [&]() { if((int)cur.size() == total) { out.push_back(cur); return; } for(size_t i = 0; i < left.size(); i++) if(left[i] > 0) { left[i]--; cur.push_back((int)i); rec(); cur.pop_back(); left[i]++; } };
    rec();
}

// solo digests must be computed in a process that has not run any other instance: fork
static std::string solo_fresh(const Cfg &c) {
    int fds[2]; if(pipe(fds)) return "";
    fflush(stdout); fflush(stderr);
    pid_t p = fork();
    if(p == 0) { close(fds[0]); std::string d = solo(c); if(write(fds[1], d.data(), d.size())) {} _exit(0); }
    close(fds[1]); std::string d; char t[256]; ssize_t r; while((r = read(fds[0], t, sizeof t)) > 0) d.append(t, (size_t)r); close(fds[0]); int st; waitpid(p, &st, 0); return d;
}

} // namespace

int main(int argc, char **argv) {
    en::Args a = en::parse_args(argc, argv);
    bool thorough = a.tier == "thorough"; g_thorough = thorough;
    pl::install_hooks(false);
    g_opn_verif.yield = sc::yield_hook;
    { WOPNFile *f = WOPN_Init(1, 1); f->version = 2;
      for(int s = 0; s < 2; s++) { WOPNBank *bk = s ? f->banks_percussive : f->banks_melodic; for(int i = 0; i < 128; i++) { WOPNInstrument &w = bk->ins[i]; memset(&w, 0, sizeof w); w.fbalg = 0x3C; w.lfosens = 0x13;
          for(int op = 0; op < 4; op++) { w.operators[op].dtfm_30 = (uint8_t)(1 + op * 0x11); w.operators[op].level_40 = (uint8_t)(20 + 7 * op); w.operators[op].rsatk_50 = 0x1F; w.operators[op].amdecay1_60 = 0x85; w.operators[op].decay2_70 = 2; w.operators[op].susrel_80 = 0x2F; }
          w.delay_on_ms = 1000; w.delay_off_ms = 100; w.percussion_key_number = s ? 45 : 0; } }
      f->lfo_freq = 0x0B; size_t sz = WOPN_CalculateBankFileSize(f, 2); g_bank.resize(sz); WOPN_SaveBankToMem(f, g_bank.data(), sz, 2, 0); WOPN_Free(f); }
    static const std::vector<std::string> TAGS = {};
    std::vector<en::Family> fams;
    // (a) reference digests (this process has run nothing else yet)
    { std::string all; for(int c = 0; c < NCORES; c++) for(long rate : {22050l, 44100l, 53267l}) for(int key : {48, 72}) { Cfg g(CORES[c], rate, false, key); std::string d1 = solo_fresh(g), d2 = solo_fresh(g); if(d1 != d2 || d1.empty()) all += "NONDETERMINISTIC(" + cfg_str(g) + ")"; all += d1 + ";"; }
      vu::H128 h = vu::hash128(all); en::g_extra["solo_digest"] = vu::hex(&h, sizeof h); en::g_extra["solo_digest_nondeterministic"] = all.find("NONDETERMINISTIC") != std::string::npos ? all.substr(all.find("NONDETERMINISTIC"), 80) : ""; }
    static const long RATES[] = {44100, 22050};
    { std::vector<std::vector<int>> il; interleavings({4, 4}, il); static std::vector<std::vector<int>> IL; IL = il;
      en::Family F; F.name = "two_instances_one_thread"; F.count = (uint64_t)NCORES * NCORES * 8 * (thorough ? 4 : 2); F.chunk = 1; F.budget_s = 600; F.describe = std::string("observed instance core x interfering instance core (8 x 8, both Nuked modes) x interfering sample rate {same, different} x interfering run-at-PCM-rate {off,on} x interfering chip family {OPN2,OPNA} x observed instance ") + (thorough ? "{run-at-PCM-rate off,on} x {OPN2,OPNA family}" : "{PCM-rate off + OPN2 family, PCM-rate on + OPNA family}") + "; both histories set the chip type at creation and rewrite the LFO register before their note-ons; inside each: all " + std::to_string(il.size()) + " interleavings of the two 4-call histories [create+configure, note-ons, generate 512, bend+generate 512+close] on one thread";
      F.run = [](uint64_t i, en::CaseOut &o) { unsigned av = (unsigned)(i / 512); bool apcm = g_thorough ? (av & 1) : (av == 1), afam = g_thorough ? (av >> 1) : (av == 1); Cfg A(CORES[i % NCORES], 44100, apcm, 60, afam); Cfg B(CORES[(i / NCORES) % NCORES], RATES[(i / 64) % 2], (bool)((i / 128) % 2), 67, (int)((i / 256) % 2));
        std::string sa = solo_fresh(A), sb = solo_fresh(B);
        o.sample = "observed " + cfg_str(A) + " / interfering " + cfg_str(B);
        for(size_t k = 0; k < IL.size(); k++) {
            // every interleaving in a fresh process (process-wide state must not leak between interleavings)
            int fds[2]; if(pipe(fds)) return; fflush(stdout); fflush(stderr); pid_t p = fork();
            if(p == 0) { close(fds[0]); Run ra, rb; ra.c = A; rb.c = B; for(int who : IL[k]) { Run &r = who ? rb : ra; r.call(r.step++); } std::string d = ra.digest() + "/" + rb.digest(); if(write(fds[1], d.data(), d.size())) {} _exit(0); }
            close(fds[1]); std::string d; char t[256]; ssize_t r; while((r = read(fds[0], t, sizeof t)) > 0) d.append(t, (size_t)r); close(fds[0]); int st; waitpid(p, &st, 0);
            std::string da = d.substr(0, d.find('/')), db = d.find('/') == std::string::npos ? "" : d.substr(d.find('/') + 1);
            auto order = [&]() { std::string s; for(int who : IL[k]) s += who ? 'B' : 'A'; return s; };
            if(!(WIFEXITED(st) && WEXITSTATUS(st) == 0)) { o.fail("C14/crash/interleaving", "interleaving " + order() + " crashed [" + o.sample + "]"); return; }
            if(da != sa) { o.fail(std::string("C14/interference/") + CNAME[i % NCORES] + "/by-" + CNAME[(i / NCORES) % NCORES], "the " + std::string(da.substr(0, 32) != sa.substr(0, 32) ? "audio" : "register stream") + " of the observed instance differs from its solo run when interleaved as " + order() + " [" + o.sample + "]"); return; }
            if(db != sb) { o.fail(std::string("C14/interference/") + CNAME[(i / NCORES) % NCORES] + "/by-" + CNAME[i % NCORES], "the output of the second instance differs from its solo run when interleaved as " + order() + " [" + o.sample + "]"); return; }
        }
        o.units = IL.size(); o.nontrivial = true; };
      fams.push_back(F); }
    { // the file loaders and converters are part of an instance's history too: a song loaded by another instance must not change what this one plays
      std::vector<std::vector<int>> il; interleavings({3, 3}, il); static std::vector<std::vector<int>> ILF; ILF = il;
      static std::vector<gm::Bytes> SONGS; if(SONGS.empty()) {
          SONGS.push_back(gm::mus({0x10, 0x3C, 0x90, 0x3E, 0x20, 0x00, 0x3C, 0x80, 0x3E, 0x10, 0x60}, 1, 1));                  // MUS, key-ons without a volume byte (relies on the format's initial volume)
          SONGS.push_back(gm::mus({0x10, 0xBC, 0x7F, 0x90, 0xBE, 0x7F, 0x20, 0x00, 0x3C, 0x80, 0x3E, 0x10, 0x60}, 1, 1));      // MUS, key-ons with volume 127 on the same channel
          SONGS.push_back(gm::seed_xmi()); SONGS.push_back(gm::seed_smf1()); SONGS.push_back(gm::seed_mus()); }
      static const char *SN[] = {"MUS without volume bytes", "MUS with volume 127", "XMI (2 songs)", "SMF format 1", "MUS seed"};
      en::Family F; F.name = "file_loads_two_instances"; F.count = 5 * 5; F.chunk = 1; F.budget_s = 600; F.describe = "observed instance loads and plays song A, interfering instance loads and plays song B, A and B over {MUS without volume bytes, MUS with volume 127, XMI, SMF, MUS seed}; all " + std::to_string(il.size()) + " interleavings of the two 3-call histories [create+bank, openData+play 1024, play 4096+close] on one thread, each in a fresh process; PCM and register stream of both must equal their solo runs";
      F.run = [](uint64_t i, en::CaseOut &o) { int sa = (int)(i % 5), sb = (int)(i / 5);
        struct FRun { int song; pl::Instance I; std::string pcm; vu::Ser regs; int step = 0;
            void call(int k) { static __thread short buf[8192];
                if(k == 0) { I.create(44100); I.tap.logging = true; opn2_setNumChips(I.dev, 1); opn2_openBankData(I.dev, g_bank.data(), (long)g_bank.size()); }
                else if(k == 1) { if(opn2_openData(I.dev, SONGS[(size_t)song].data(), (unsigned long)SONGS[(size_t)song].size()) != 0) pcm += "LOAD-FAILED"; int n = opn2_play(I.dev, 1024, buf); pcm.append((const char *)buf, (size_t)(n > 0 ? n : 0) * 2); }
                else { int n = opn2_play(I.dev, 4096, buf); pcm.append((const char *)buf, (size_t)(n > 0 ? n : 0) * 2); for(auto &w : I.tap.log) { regs.u16(w.chip); regs.u8(w.port); regs.u16(w.reg); regs.u16(w.val); regs.u8(w.kind); } I.close(); } }
            std::string digest() { vu::H128 a = vu::hash128(pcm), b = vu::hash128(regs.s); return vu::hex(&a, sizeof a) + ":" + vu::hex(&b, sizeof b); } };
        auto in_child = [&](const std::function<std::string()> &fn) { int fds[2]; if(pipe(fds)) return std::string(); fflush(stdout); fflush(stderr); pid_t p = fork();
            if(p == 0) { close(fds[0]); std::string d = fn(); if(write(fds[1], d.data(), d.size())) {} _exit(0); }
            close(fds[1]); std::string d; char t[256]; ssize_t r; while((r = read(fds[0], t, sizeof t)) > 0) d.append(t, (size_t)r); close(fds[0]); int st; waitpid(p, &st, 0); if(!(WIFEXITED(st) && WEXITSTATUS(st) == 0)) return std::string("CRASH"); return d; };
        std::string solo_a = in_child([&]() { FRun r; r.song = sa; for(int k = 0; k < 3; k++) r.call(k); return r.digest(); }), solo_b = in_child([&]() { FRun r; r.song = sb; for(int k = 0; k < 3; k++) r.call(k); return r.digest(); });
        o.sample = std::string("observed: ") + SN[sa] + " / interfering: " + SN[sb];
        { std::string chk = in_child([&]() { FRun r; r.song = sa; r.call(0); r.call(1); int keyons = 0; for(auto &w : r.I.tap.log) if(!w.kind && w.reg == 0x28 && (w.val & 0xF0)) keyons++; return r.pcm.find("LOAD-FAILED") != std::string::npos ? std::string("load failed") : keyons ? std::string("ok") : std::string("no key-on in the first 1024 samples"); }); if(chk != "ok") { o.fail("C14/harness-song", std::string(SN[sa]) + ": " + chk); return; } }
        for(size_t k = 0; k < ILF.size(); k++) { std::string d = in_child([&]() { FRun ra, rb; ra.song = sa; rb.song = sb; for(int who : ILF[k]) { FRun &r = who ? rb : ra; r.call(r.step++); } return ra.digest() + "/" + rb.digest(); });
            std::string order; for(int who : ILF[k]) order += who ? 'B' : 'A';
            if(d == "CRASH") { o.fail("C14/crash/file-load-interleaving", "interleaving " + order + " crashed [" + o.sample + "]"); return; }
            if(d != solo_a + "/" + solo_b) { bool first = d.substr(0, d.find('/')) != solo_a; o.fail(std::string("C14/interference/file-load/") + (first ? SN[sa] : SN[sb]), std::string("the output of the ") + (first ? "observed" : "interfering") + " instance differs from its solo run when interleaved as " + order + " [" + o.sample + "]"); return; } }
        o.units = ILF.size(); o.nontrivial = true; };
      fams.push_back(F); }
    { std::vector<std::vector<int>> il; interleavings({2, 2, 2}, il); static std::vector<std::vector<int>> IL3; IL3 = il;
      static const int TRI[][3] = {{0, 1, 7}, {7, 1, 0}, {2, 4, 5}, {4, 4, 4}, {3, 6, 0}, {1, 7, 1}, {5, 0, 2}, {6, 3, 4}};
      en::Family F; F.name = "three_instances_one_thread"; F.count = 8; F.chunk = 1; F.budget_s = 600; F.describe = "8 core triples; all " + std::to_string(il.size()) + " interleavings of three 2-call halves ([create+configure+note-on], [generate 512, bend, generate 512, close]) on one thread";
      F.run = [](uint64_t i, en::CaseOut &o) { Cfg C[3]; for(int k = 0; k < 3; k++) C[k] = {CORES[TRI[i][k]], k == 1 ? 22050l : 44100l, false, 55 + 5 * k}; std::string s[3]; for(int k = 0; k < 3; k++) s[k] = solo_fresh(C[k]);
        o.sample = cfg_str(C[0]) + " / " + cfg_str(C[1]) + " / " + cfg_str(C[2]);
        for(size_t q = 0; q < IL3.size(); q++) { int fds[2]; if(pipe(fds)) return; fflush(stdout); fflush(stderr); pid_t p = fork();
            if(p == 0) { close(fds[0]); Run r[3]; for(int k = 0; k < 3; k++) r[k].c = C[k]; for(int who : IL3[q]) { Run &x = r[who]; x.call(x.step++); x.call(x.step++); } std::string d = r[0].digest() + "/" + r[1].digest() + "/" + r[2].digest(); if(write(fds[1], d.data(), d.size())) {} _exit(0); }
            close(fds[1]); std::string d; char t[512]; ssize_t rr; while((rr = read(fds[0], t, sizeof t)) > 0) d.append(t, (size_t)rr); close(fds[0]); int st; waitpid(p, &st, 0);
            std::string want = s[0] + "/" + s[1] + "/" + s[2];
            if(d != want) { std::string ord; for(int who : IL3[q]) ord += (char)('A' + who); size_t w = 0; for(int k = 0; k < 3; k++) if(d.substr((size_t)k * (s[0].size() + 1), s[0].size()) != s[k]) { w = (size_t)k; break; }
                o.fail(std::string("C14/interference3/") + CNAME[TRI[i][w]], "instance " + std::string(1, (char)('A' + w)) + " differs from its solo run when interleaved as " + ord + " [" + o.sample + "]"); return; } }
        o.units = IL3.size(); o.nontrivial = true; };
      fams.push_back(F); }
    { static int BOUND; BOUND = thorough ? 2 : 1;
      en::Family F; F.name = "two_threads_scheduled"; F.count = (uint64_t)NCORES * NCORES; F.chunk = 1; F.budget_s = 3000; F.describe = "two real threads, one instance each (core pair 8 x 8, second instance at 22050 Hz), under the serialising scheduler: every schedule with at most " + std::to_string(BOUND) + " preemption(s) over API-call boundaries and the library's yield points (before each chip construction, after Nuked's chip-type write, per generated period); each execution in a fresh process";
      F.run = [](uint64_t i, en::CaseOut &o) { Cfg A(CORES[i % NCORES], 44100, true, 60, 1); Cfg B(CORES[i / NCORES], 22050, true, 67, 0);
        std::string sa = solo_fresh(A), sb = solo_fresh(B);
        static Run *R[2];
        std::vector<sc::Body> bodies; Cfg cf[2] = {A, B};
        for(int t = 0; t < 2; t++) bodies.push_back([cf, t](int) { Run *r = new Run; r->c = cf[t]; R[t] = r; for(int k = 0; k < 4; k++) { sc::api_boundary("api-call"); r->call(k); } });
        auto obs = [](std::vector<std::string> &out) { for(int t = 0; t < 2; t++) out.push_back(R[t] ? R[t]->digest() : "?"); };
        sc::ExploreStats st;
        sc::explore(bodies, obs, BOUND, [&](const sc::Exec &x, std::string &why) { if(x.obs.size() != 2) { why = "missing observation"; return false; } if(x.obs[0] != sa) { why = "thread 0 (" + cfg_str(A) + ") differs from its solo run"; return false; } if(x.obs[1] != sb) { why = "thread 1 (" + cfg_str(B) + ") differs from its solo run"; return false; } return true; }, st, 100000);
        o.units = st.schedules; o.sample = cfg_str(A) + " || " + cfg_str(B) + ": " + std::to_string(st.schedules) + " schedules, up to " + std::to_string(st.max_points) + " scheduling points, " + std::to_string(st.outcomes.size()) + " distinct outcome(s), bound completed " + std::to_string(st.bound_completed);
        if(!st.fail_what.empty()) {
            // replay the failing schedule twice before believing it
            sc::Exec r1 = sc::run_schedule(bodies, st.failing, obs), r2 = sc::run_schedule(bodies, st.failing, obs);
            std::string sch; for(int c : st.failing) sch += std::to_string(c);
            if(r1.obs != r2.obs) { o.fail("C14/schedule-replay-not-deterministic", "schedule " + sch + " gave different observations in two replays [" + o.sample + "]"); return; }
            bool isA = st.fail_what.find("thread 0") != std::string::npos;
            o.fail(std::string("C14/thread-interference/") + CNAME[isA ? (i % NCORES) : (i / NCORES)] + "/by-" + CNAME[isA ? (i / NCORES) : (i % NCORES)], st.fail_what + " under schedule " + sch + " [" + o.sample + "]"); return; }
        o.nontrivial = true; };
      fams.push_back(F); }
    return en::run_main(argc, argv, "C14", fams, TAGS, "non-trivial: every interleaving / schedule of the case reproduced the solo outputs bit for bit");
}
