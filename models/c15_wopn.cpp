// C15 — WOPN/OPNI serialisation round-trips and never writes past its buffer (E2, narrow seam:
// wopn_file.c called directly).
#include "enumx.hpp"
#include <array>
#include <set>
extern "C" {
#include "wopn/wopn_file.h"
}

namespace {

enum { T_V1, T_V2, T_REFUSED_SMALL, T_ACCEPTED, T_REJECTED, T_BLANK_CANON, T_NT };
static const std::vector<std::string> TAGS = {"version1", "version2", "too_small_destination_refused", "loader_accepted", "loader_rejected", "blank_delay_canonicalisation_applied"};

static void fill_ins(WOPNInstrument &w, unsigned seed) {
    memset(&w, 0, sizeof w);
    snprintf(w.inst_name, sizeof w.inst_name, "i%u", seed);
    w.note_offset = (int16_t)((int)(seed * 37 % 97) - 48);
    w.percussion_key_number = (uint8_t)(seed * 13);
    w.fbalg = (uint8_t)(seed * 7 + 3); w.lfosens = (uint8_t)(seed * 11 + 1);
    for(int op = 0; op < 4; op++) { uint8_t *o = (uint8_t *)&w.operators[op]; for(int b = 0; b < 7; b++) o[b] = (uint8_t)(seed * 5 + op * 17 + b * 3 + 1); }
    w.delay_on_ms = (uint16_t)(seed * 101 + 5); w.delay_off_ms = (uint16_t)(seed * 59 + 7);
}
static WOPNFile *make_file(unsigned nm, unsigned np, unsigned seed) {
    WOPNFile *f = WOPN_Init((uint16_t)nm, (uint16_t)np);
    f->version = 2; f->lfo_freq = (uint8_t)(seed & 15); f->chip_type = (uint8_t)((seed >> 4) & 1); f->volume_model = 0;
    for(unsigned s = 0; s < 2; s++) {
        WOPNBank *b = s ? f->banks_percussive : f->banks_melodic; unsigned n = s ? np : nm;
        for(unsigned i = 0; i < n; i++) {
            memset(b[i].bank_name, 0, sizeof b[i].bank_name); snprintf(b[i].bank_name, sizeof b[i].bank_name, "bank%u_%u", s, i);
            b[i].bank_midi_lsb = (uint8_t)(i + seed); b[i].bank_midi_msb = (uint8_t)(i * 3 + s);
            for(unsigned k = 0; k < 128; k++) fill_ins(b[i].ins[k], seed + i * 128 + k + s * 7);
        }
    }
    return f;
}

// expected value after save(version)+load
static void expect_ins(WOPNInstrument &e, const WOPNInstrument &v, int version, bool bank_file, uint64_t *tags) {
    memset(&e, 0, sizeof e);
    strncpy(e.inst_name, v.inst_name, 31);
    e.note_offset = v.note_offset; e.percussion_key_number = v.percussion_key_number; e.fbalg = v.fbalg; e.lfosens = v.lfosens;
    memcpy(e.operators, v.operators, sizeof e.operators);
    if(version >= 2 && bank_file) {
        bool blank = (v.inst_flags & WOPN_Ins_IsBlank) != 0;
        e.delay_on_ms = blank ? 0 : v.delay_on_ms; e.delay_off_ms = blank ? 0 : v.delay_off_ms;
        if(e.delay_on_ms == 0 && e.delay_off_ms == 0) { e.inst_flags = WOPN_Ins_IsBlank; if(tags && (!blank || v.delay_on_ms || v.delay_off_ms)) *tags |= 1ull << T_BLANK_CANON; }
    }
}
static bool ins_eq(const WOPNInstrument &a, const WOPNInstrument &b, std::string &why) {
    char t[200];
#define F(x) if(a.x != b.x) { snprintf(t, sizeof t, #x " %d != %d", (int)a.x, (int)b.x); why = t; return false; }
    if(strncmp(a.inst_name, b.inst_name, 32) != 0) { why = "inst_name"; return false; }
    F(note_offset) F(midi_velocity_offset) F(percussion_key_number) F(inst_flags) F(fbalg) F(lfosens) F(delay_on_ms) F(delay_off_ms)
#undef F
    for(int op = 0; op < 4; op++) if(memcmp(&a.operators[op], &b.operators[op], 7) != 0) { snprintf(t, sizeof t, "operator %d: %s != %s", op, vu::hex(&a.operators[op], 7).c_str(), vu::hex(&b.operators[op], 7).c_str()); why = t; return false; }
    return true;
}

struct Guarded {
    std::vector<uint8_t> buf; size_t n;
    explicit Guarded(size_t sz) : buf(sz + 64, 0xA5), n(sz) {}
    uint8_t *p() { return buf.data(); }
    bool intact() const { for(size_t i = n; i < buf.size(); i++) if(buf[i] != 0xA5) return false; return true; }
};

// save value with version, load back, compare with the expectation for that version
static void roundtrip_bank(WOPNFile *f, int version, en::CaseOut &o) {
    o.tags |= 1ull << (version >= 2 ? T_V2 : T_V1);
    size_t need = WOPN_CalculateBankFileSize(f, (uint16_t)version);
    Guarded g(need);
    int rc = WOPN_SaveBankToMem(f, g.p(), need, (uint16_t)version, 0);
    if(rc != WOPN_ERR_OK) { o.fail("C15/save-into-calculated-size-failed", "WOPN_SaveBankToMem returned " + std::to_string(rc) + " for a buffer of the calculated size " + std::to_string(need)); return; }
    if(!g.intact()) { o.fail("C15/save-overrun", "bytes beyond the calculated size were modified"); return; }
    // exact-size heap copy so that the sanitizer sees any over-read of the loader
    uint8_t *blk = (uint8_t *)malloc(need ? need : 1); memcpy(blk, g.p(), need);
    int err = 0; WOPNFile *l = WOPN_LoadBankFromMem(blk, need, &err);
    free(blk);
    if(!l) { o.fail("C15/load-of-saved-failed", "loading the saved bank failed with error " + std::to_string(err)); return; }
    char t[256]; std::string why;
    auto bad = [&](const std::string &s) { o.fail("C15/roundtrip/" + s, "version " + std::to_string(version) + ": " + why); WOPN_Free(l); };
    if(l->version != version) { why = "version"; bad("version"); return; }
    if(l->banks_count_melodic != f->banks_count_melodic || l->banks_count_percussion != f->banks_count_percussion) { why = "bank counts"; bad("counts"); return; }
    if(l->lfo_freq != (f->lfo_freq & 15)) { why = "lfo_freq"; bad("lfo"); return; }
    if(l->chip_type != (version >= 2 ? (f->chip_type & 1) : 0)) { why = "chip_type"; bad("chip-type"); return; }
    for(int s = 0; s < 2; s++) {
        WOPNBank *a = s ? f->banks_percussive : f->banks_melodic, *b = s ? l->banks_percussive : l->banks_melodic; unsigned n = s ? f->banks_count_percussion : f->banks_count_melodic;
        for(unsigned i = 0; i < n; i++) {
            if(version >= 2) {
                if(strncmp(a[i].bank_name, b[i].bank_name, 33) != 0) { snprintf(t, sizeof t, "bank name '%.33s' != '%.33s'", a[i].bank_name, b[i].bank_name); why = t; bad("bank-name"); return; }
                if(a[i].bank_midi_lsb != b[i].bank_midi_lsb || a[i].bank_midi_msb != b[i].bank_midi_msb) { why = "bank lsb/msb"; bad("bank-number"); return; }
            } else if(b[i].bank_name[0] || b[i].bank_midi_lsb || b[i].bank_midi_msb) { why = "version 1 must drop bank names and numbers"; bad("v1-bank-meta"); return; }
            for(int k = 0; k < 128; k++) {
                WOPNInstrument e; expect_ins(e, a[i].ins[k], version, true, &o.tags);
                if(!ins_eq(b[i].ins[k], e, why)) { snprintf(t, sizeof t, " (set %d bank %u instrument %d)", s, i, k); why += t; bad("instrument"); return; }
            }
        }
    }
    // idempotence: saving the loaded value again gives the same bytes
    Guarded g2(need);
    if(WOPN_CalculateBankFileSize(l, (uint16_t)version) != need || WOPN_SaveBankToMem(l, g2.p(), need, (uint16_t)version, 0) != 0 || memcmp(g.p(), g2.p(), need) != 0) { why = "second save differs"; bad("resave"); return; }
    WOPN_Free(l);
    o.nontrivial = true;
}

static void roundtrip_inst(OPNIFile &f, int version, en::CaseOut &o) {
    o.tags |= 1ull << (version >= 2 ? T_V2 : T_V1);
    size_t need = WOPN_CalculateInstFileSize(&f, (uint16_t)version);
    Guarded g(need);
    int rc = WOPN_SaveInstToMem(&f, g.p(), need, (uint16_t)version);
    if(rc != 0) { o.fail("C15/inst-save-into-calculated-size-failed", "WOPN_SaveInstToMem returned " + std::to_string(rc)); return; }
    if(!g.intact()) { o.fail("C15/inst-save-overrun", "bytes beyond the calculated size were modified"); return; }
    uint8_t *blk = (uint8_t *)malloc(need); memcpy(blk, g.p(), need);
    OPNIFile l; memset(&l, 0, sizeof l);
    rc = WOPN_LoadInstFromMem(&l, blk, need);
    free(blk);
    if(rc != 0) { o.fail("C15/inst-load-of-saved-failed", "error " + std::to_string(rc)); return; }
    std::string why; WOPNInstrument e; expect_ins(e, f.inst, version, false, NULL);
    if(l.version != version || l.is_drum != f.is_drum) { o.fail("C15/inst-roundtrip/header", "version or is_drum differs"); return; }
    if(!ins_eq(l.inst, e, why)) { o.fail("C15/inst-roundtrip/instrument", "version " + std::to_string(version) + ": " + why); return; }
    // the loaded value is a function of the file alone: a target structure that held something else before (every byte set) must come out the same
    { uint8_t *blk2 = (uint8_t *)malloc(need); memcpy(blk2, g.p(), need); OPNIFile l2; memset(&l2, 0xFF, sizeof l2); rc = WOPN_LoadInstFromMem(&l2, blk2, need); free(blk2);
      if(rc != 0) { o.fail("C15/inst-load-of-saved-failed", "error " + std::to_string(rc) + " with a previously used target structure"); return; }
      if(l2.version != version || l2.is_drum != f.is_drum) { o.fail("C15/inst-roundtrip/header", "version or is_drum differs when the target structure was used before"); return; }
      if(!ins_eq(l2.inst, e, why)) { o.fail("C15/inst-roundtrip/instrument", "version " + std::to_string(version) + ", target structure used before (all bytes FF): " + why); return; } }
    o.nontrivial = true;
}

// ---- families ----------------------------------------------------------------------------------
struct FieldSpec { const char *name; uint32_t range; };
static const int NFIELD = 3 + 28 + 1 + 2;   // note_offset, key, fbalg, lfosens -> see set_field
static uint32_t field_range(int f) { if(f == 0) return 65536; if(f >= 32) return 65536; return 256; }
static void set_field(WOPNInstrument &w, int f, uint32_t v) {
    if(f == 0) w.note_offset = (int16_t)(uint16_t)v;
    else if(f == 1) w.percussion_key_number = (uint8_t)v;
    else if(f == 2) w.fbalg = (uint8_t)v;
    else if(f == 3) w.lfosens = (uint8_t)v;
    else if(f < 32) ((uint8_t *)&w.operators[(f - 4) / 7])[(f - 4) % 7] = (uint8_t)v;
    else if(f == 32) w.delay_on_ms = (uint16_t)v;
    else if(f == 33) w.delay_off_ms = (uint16_t)v;
}

static std::vector<uint8_t> g_valid_v2, g_valid_v1, g_valid_opni2, g_valid_opni1;

// number of bytes a successful save really writes (two poison patterns, last modified byte + 1)
template <class SaveFn> static size_t written_size(size_t cap, SaveFn save) {
    std::vector<uint8_t> a(cap, 0x5A), b(cap, 0xA5);
    if(save(a.data(), cap) != 0 || save(b.data(), cap) != 0) return (size_t)-1;
    size_t n = 0; for(size_t i = 0; i < cap; i++) if(a[i] != 0x5A || b[i] != 0xA5) n = i + 1;
    return n;
}

static void accepted_identity(const std::vector<uint8_t> &bytes, en::CaseOut &o) {
    uint8_t *blk = (uint8_t *)malloc(bytes.size() ? bytes.size() : 1); memcpy(blk, bytes.data(), bytes.size());
    int err = -1; WOPNFile *l1 = WOPN_LoadBankFromMem(blk, bytes.size(), &err);
    free(blk);
    if(!l1) { o.tags |= 1ull << T_REJECTED; if(err < WOPN_ERR_BAD_MAGIC || err > WOPN_ERR_NULL_POINTER) o.fail("C15/undefined-error-code", "error code " + std::to_string(err)); return; }
    o.tags |= 1ull << T_ACCEPTED; o.nontrivial = true;
    uint16_t ver = l1->version;
    size_t need = WOPN_CalculateBankFileSize(l1, ver);
    Guarded g(need);
    int rc = WOPN_SaveBankToMem(l1, g.p(), need, ver, 0);
    if(rc != 0 || !g.intact()) { o.fail("C15/accepted/save-failed", "saving a loaded value failed or overran, rc " + std::to_string(rc)); WOPN_Free(l1); return; }
    uint8_t *b2 = (uint8_t *)malloc(need); memcpy(b2, g.p(), need);
    WOPNFile *l2 = WOPN_LoadBankFromMem(b2, need, &err); free(b2);
    if(!l2) { o.fail("C15/accepted/reload-failed", "loading save(load(x)) failed with " + std::to_string(err)); WOPN_Free(l1); return; }
    // identity on the loaded value; version 1 does not carry names/numbers/delays/blank flags/chip type, which load() of a v1 file never sets
    // except the synthetic all-blank bank the loader creates for a zero bank count
    std::string why;
    bool same = true;
    if(l1->version >= 2 || l1->version == 0) { if(!WOPN_BanksCmp(l1, l2)) { same = false; why = "WOPN_BanksCmp(load(x), load(save(load(x)))) == 0, loaded version " + std::to_string(l1->version) + " reloaded version " + std::to_string(l2->version); } }
    else {
        if(l1->version != l2->version || l1->banks_count_melodic != l2->banks_count_melodic || l1->banks_count_percussion != l2->banks_count_percussion || l1->lfo_freq != l2->lfo_freq) { same = false; why = "header"; }
        // identity includes the fields version 1 does not carry: whatever the loader put there must come back (the unchanged loader leaves them at their defaults for a version-1 file)
        if(same && (l1->chip_type != l2->chip_type || l1->volume_model != l2->volume_model)) { same = false; why = "chip_type " + std::to_string(l1->chip_type) + " -> " + std::to_string(l2->chip_type) + ", volume_model " + std::to_string(l1->volume_model) + " -> " + std::to_string(l2->volume_model) + " (version 1 image)"; }
        for(int s = 0; same && s < 2; s++) { WOPNBank *a = s ? l1->banks_percussive : l1->banks_melodic, *b = s ? l2->banks_percussive : l2->banks_melodic; unsigned n = s ? l1->banks_count_percussion : l1->banks_count_melodic;
            for(unsigned i = 0; same && i < n; i++) for(int k = 0; same && k < 128; k++) { WOPNInstrument x = a[i].ins[k], y = b[i].ins[k]; x.inst_flags = y.inst_flags = 0; x.delay_on_ms = y.delay_on_ms = 0; x.delay_off_ms = y.delay_off_ms = 0; if(!ins_eq(x, y, why)) same = false; } }
    }
    if(!same) o.fail("C15/accepted/not-identity", why);
    else {
        Guarded g2(need);
        if(WOPN_SaveBankToMem(l2, g2.p(), need, ver, 0) != 0 || memcmp(g.p(), g2.p(), need) != 0) o.fail("C15/accepted/resave-differs", "second save is not byte-identical");
    }
    WOPN_Free(l1); WOPN_Free(l2);
}

} // namespace

int main(int argc, char **argv) {
    en::Args a = en::parse_args(argc, argv);
    bool thorough = a.tier == "thorough";
    std::vector<en::Family> fams;
    { WOPNFile *f = make_file(1, 1, 3); size_t n2 = WOPN_CalculateBankFileSize(f, 2), n1 = WOPN_CalculateBankFileSize(f, 1); g_valid_v2.resize(n2); g_valid_v1.resize(n1);
      WOPN_SaveBankToMem(f, g_valid_v2.data(), n2, 2, 0); WOPN_SaveBankToMem(f, g_valid_v1.data(), n1, 1, 0); WOPN_Free(f); }

    { en::Family F; F.name = "names"; F.count = 33 * 32 * 2; F.chunk = 32; F.describe = "bank-name length 0..32 x instrument-name length 0..31 x version {1,2}, 1+1 banks";
      F.run = [](uint64_t i, en::CaseOut &o) { unsigned bl = i % 33, il = (i / 33) % 32; int ver = (i / (33 * 32)) ? 2 : 1; WOPNFile *f = make_file(1, 1, 5);
        memset(f->banks_melodic[0].bank_name, 0, 33); memset(f->banks_melodic[0].bank_name, 'B', bl); memset(f->banks_percussive[0].bank_name, 0, 33); memset(f->banks_percussive[0].bank_name, 'p', 32 - bl);
        for(int k = 0; k < 128; k += 9) { memset(f->banks_melodic[0].ins[k].inst_name, 0, 32); memset(f->banks_melodic[0].ins[k].inst_name, 'n', il); }
        o.sample = "bank-name length " + std::to_string(bl) + ", instrument-name length " + std::to_string(il) + ", version " + std::to_string(ver);
        roundtrip_bank(f, ver, o); WOPN_Free(f); };
      fams.push_back(F); }
    { en::Family F; F.name = "bank_numbers"; F.count = 256 * 2 * 2; F.chunk = 16; F.describe = "bank LSB 0..255 and MSB 0..255 (other at {0,127}) on melodic and percussion banks, version 2";
      F.run = [](uint64_t i, en::CaseOut &o) { unsigned v = i % 256, which = (i / 256) % 2, other = (i / 512) ? 127 : 0; WOPNFile *f = make_file(2, 2, 1);
        for(int b = 0; b < 2; b++) { f->banks_melodic[b].bank_midi_lsb = which ? other : v; f->banks_melodic[b].bank_midi_msb = which ? v : other; f->banks_percussive[b].bank_midi_lsb = which ? v : other; f->banks_percussive[b].bank_midi_msb = which ? other : v; }
        roundtrip_bank(f, 2, o); WOPN_Free(f); };
      fams.push_back(F); }
    { en::Family F; F.name = "counts_header"; static const unsigned C[][2] = {{1,1},{1,2},{2,1},{2,2},{3,1},{1,3},{3,3},{0,1},{1,0},{0,0},{64,64},{64,1}}; F.count = 12 * 2 * 32; F.chunk = 4; F.budget_s = 10;
      F.describe = "bank counts (m,p) in {0..3}^2 subset + (64,64),(64,1) x version {1,2} x lfo_freq 0..15 x chip_type 0/1";
      F.run = [](uint64_t i, en::CaseOut &o) { unsigned c = i % 12, ver = (i / 12) % 2 ? 2 : 1, hdr = (i / 24) % 32; WOPNFile *f = make_file(C[c][0], C[c][1], hdr); f->lfo_freq = hdr & 15; f->chip_type = (hdr >> 4) & 1;
        o.sample = "banks " + std::to_string(C[c][0]) + "+" + std::to_string(C[c][1]) + " version " + std::to_string(ver) + " lfo " + std::to_string(hdr & 15) + " chip " + std::to_string(hdr >> 4);
        roundtrip_bank(f, (int)ver, o); WOPN_Free(f); };
      fams.push_back(F); }
    { // every instrument field over its full range, one at a time, on three base instruments, through the OPNI writer/reader (v1, v2)
      en::Family F; F.name = "inst_fields"; uint64_t tot = 0; for(int f = 0; f < 34; f++) tot += field_range(f); F.count = tot * 3 * 2; F.chunk = 4096; F.describe = "OPNI files: each instrument field (note offset 65536, drum key/fbalg/lfosens 256, 28 operator bytes x 256, delays 65536) over its full range x 3 base instruments x version {1,2}";
      F.run = [tot](uint64_t i, en::CaseOut &o) { uint64_t r = i % tot; unsigned base = (i / tot) % 3; int ver = (i / tot / 3) ? 2 : 1; int f = 0; while(r >= field_range(f)) { r -= field_range(f); f++; }
        OPNIFile x; memset(&x, 0, sizeof x); x.version = (uint16_t)ver; x.is_drum = (uint8_t)(base == 2); fill_ins(x.inst, base * 41 + 1); set_field(x.inst, f, (uint32_t)r);
        if(r == 0) o.sample = "field #" + std::to_string(f) + " = 0.." + std::to_string(field_range(f) - 1) + " base " + std::to_string(base) + " version " + std::to_string(ver);
        roundtrip_inst(x, ver, o); };
      fams.push_back(F); }
    { en::Family F; F.name = "inst_is_drum_names"; F.count = 256 * 32 * 2; F.chunk = 512; F.describe = "OPNI: is_drum 0..255 x name length 0..31 x version";
      F.run = [](uint64_t i, en::CaseOut &o) { OPNIFile x; memset(&x, 0, sizeof x); int ver = (i / (256 * 32)) ? 2 : 1; x.version = (uint16_t)ver; x.is_drum = (uint8_t)(i % 256); fill_ins(x.inst, 9); memset(x.inst.inst_name, 0, 32); memset(x.inst.inst_name, 'x', (i / 256) % 32); roundtrip_inst(x, ver, o); };
      fams.push_back(F); }
    { // bank-level: every field at boundary values (and all 256 byte values for the byte fields on one instrument), blank flag x delay boundary pairs
      static const uint32_t B16[] = {0, 1, 2, 0x7F, 0x80, 0xFF, 0x100, 0x7FFF, 0x8000, 0xFFFE, 0xFFFF};
      en::Family F; F.name = "bank_fields"; F.count = (uint64_t)34 * 256 * 2; F.chunk = 32; F.describe = "1+1 bank files: each of the 34 instrument fields x 256 values (byte fields: full range; 16-bit fields: 11 boundary values, rest skipped) x version";
      F.run = [](uint64_t i, en::CaseOut &o) { int f = (int)(i % 34); uint32_t v = (uint32_t)((i / 34) % 256); int ver = (i / (34 * 256)) ? 2 : 1;
        if(field_range(f) == 65536) { if(v >= 11) { o.skip = true; return; } v = B16[v]; }
        WOPNFile *w = make_file(1, 1, 2); set_field(w->banks_melodic[0].ins[0], f, v); set_field(w->banks_melodic[0].ins[127], f, v); set_field(w->banks_percussive[0].ins[64], f, v);
        roundtrip_bank(w, ver, o); WOPN_Free(w); };
      fams.push_back(F); }
    { static const uint32_t D[] = {0, 1, 2, 0xFF, 0x100, 0xFFFF};
      en::Family F; F.name = "blank_delay_pairs"; F.count = 2 * 6 * 6 * 2; F.chunk = 8; F.describe = "blank flag {0,1} x delay_on x delay_off over {0,1,2,255,256,65535}^2 x version (equality modulo the documented blank<->zero-delays canonicalisation)";
      F.run = [](uint64_t i, en::CaseOut &o) { unsigned bl = i % 2, a = (i / 2) % 6, b = (i / 12) % 6; int ver = (i / 72) ? 2 : 1; WOPNFile *w = make_file(1, 1, 4);
        for(int k = 0; k < 128; k += 5) { w->banks_melodic[0].ins[k].inst_flags = bl ? WOPN_Ins_IsBlank : 0; w->banks_melodic[0].ins[k].delay_on_ms = (uint16_t)D[a]; w->banks_melodic[0].ins[k].delay_off_ms = (uint16_t)D[b]; }
        o.sample = std::string("blank=") + (bl ? "1" : "0") + " delays " + std::to_string(D[a]) + "/" + std::to_string(D[b]) + " version " + std::to_string(ver);
        roundtrip_bank(w, ver, o); WOPN_Free(w); };
      fams.push_back(F); }
    { // every destination size 0..needed (+2) for bank v1, v2 and OPNI v1, v2
      WOPNFile *f = make_file(1, 1, 3); size_t n2 = WOPN_CalculateBankFileSize(f, 2), n1 = WOPN_CalculateBankFileSize(f, 1); WOPN_Free(f);
      en::Family F; F.name = "dest_sizes"; F.count = (n2 + 3) + (n1 + 3) + 200; F.chunk = 128; F.describe = "every destination size 0..needed+2 for a 1+1 bank (v2: " + std::to_string(n2) + " bytes, v1: " + std::to_string(n1) + ") and OPNI v1/v2 (0..99 each)";
      F.run = [n1, n2](uint64_t i, en::CaseOut &o) {
        if(i < n2 + 3 + n1 + 3) {
            int ver = i < n2 + 3 ? 2 : 1; size_t sz = ver == 2 ? (size_t)i : (size_t)(i - (n2 + 3)); size_t calc = ver == 2 ? n2 : n1;
            WOPNFile *f = make_file(1, 1, 3);
            // "too small" = smaller than what a successful save writes; the calculator may report more (it counts a version entry for version 1 too)
            size_t need = written_size(calc + 8, [&](uint8_t *d, size_t c) { return WOPN_SaveBankToMem(f, d, c, (uint16_t)ver, 0); });
            if(need == (size_t)-1 || need > calc) { o.fail("C15/calculated-size-too-small", "a successful save writes " + std::to_string(need) + " bytes, calculator says " + std::to_string(calc)); WOPN_Free(f); return; }
            uint8_t *blk = (uint8_t *)malloc(sz + 32); memset(blk, 0xA5, sz + 32);     // sanitizer red zone right behind + explicit guard bytes
            uint8_t *exact = (uint8_t *)malloc(sz ? sz : 1);
            int rc = WOPN_SaveBankToMem(f, exact, sz, (uint16_t)ver, 0);
            int rc2 = WOPN_SaveBankToMem(f, blk, sz, (uint16_t)ver, 0);
            bool guard = true; for(size_t k = sz; k < sz + 32; k++) if(blk[k] != 0xA5) guard = false;
            if(sz < need) { if(rc == 0 || rc2 == 0) o.fail("C15/small-destination-accepted", "destination of " + std::to_string(sz) + " bytes (needed " + std::to_string(need) + ") accepted"); else o.tags |= 1ull << T_REFUSED_SMALL; }
            else if(sz >= calc && rc != 0) o.fail("C15/sufficient-destination-refused", "destination of " + std::to_string(sz) + " bytes (calculated size " + std::to_string(calc) + ") refused");
            if(!guard) o.fail("C15/destination-overrun", "wrote beyond a destination of " + std::to_string(sz) + " bytes");
            free(blk); free(exact); WOPN_Free(f); o.nontrivial = true;
            if(sz == 0) o.sample = "destination sizes 0.." + std::to_string(need + 2) + " version " + std::to_string(ver);
        } else {
            uint64_t r = i - (n2 + 3 + n1 + 3); int ver = r < 100 ? 2 : 1; size_t sz = (size_t)(r % 100);
            OPNIFile x; memset(&x, 0, sizeof x); fill_ins(x.inst, 3); size_t calc = WOPN_CalculateInstFileSize(&x, (uint16_t)ver);
            size_t need = written_size(calc + 8, [&](uint8_t *d, size_t c) { return WOPN_SaveInstToMem(&x, d, c, (uint16_t)ver); });
            if(need == (size_t)-1 || need > calc) { o.fail("C15/inst-calculated-size-too-small", "writes " + std::to_string(need) + ", calculator says " + std::to_string(calc)); return; }
            uint8_t *blk = (uint8_t *)malloc(sz + 32); memset(blk, 0xA5, sz + 32); uint8_t *exact = (uint8_t *)malloc(sz ? sz : 1);
            int rc = WOPN_SaveInstToMem(&x, exact, sz, (uint16_t)ver); WOPN_SaveInstToMem(&x, blk, sz, (uint16_t)ver);
            bool guard = true; for(size_t k = sz; k < sz + 32; k++) if(blk[k] != 0xA5) guard = false;
            if(sz < need) { if(rc == 0) o.fail("C15/inst-small-destination-accepted", "size " + std::to_string(sz)); else o.tags |= 1ull << T_REFUSED_SMALL; } else if(sz >= calc && rc != 0) o.fail("C15/inst-sufficient-destination-refused", "size " + std::to_string(sz));
            if(!guard) o.fail("C15/inst-destination-overrun", "size " + std::to_string(sz));
            free(blk); free(exact); o.nontrivial = true;
        } };
      fams.push_back(F); }
    { // many-bank shapes: the size checks of the writer are made per section (header, bank meta, instrument block), so every section/instrument boundary +-1 is a distinct case
      static const unsigned SH[][2] = {{8,1},{1,8},{8,8},{9,2},{16,3},{3,16},{7,7},{64,64},{128,1},{1,128}};
      static std::vector<std::array<uint64_t, 3>> cases;   // shape, version, destination size
      size_t nshapes = thorough ? 10 : 7;
      for(size_t sh = 0; sh < nshapes; sh++) for(int ver = 1; ver <= 2; ver++) {
          WOPNFile *f = make_file(SH[sh][0], SH[sh][1], 3); size_t calc = WOPN_CalculateBankFileSize(f, (uint16_t)ver); WOPN_Free(f);
          size_t hdr = ver == 2 ? 18 : 16, meta = ver == 2 ? 34 : 0, ins = ver == 2 ? 69 : 65; std::set<uint64_t> sz;
          for(size_t k = 0; k <= hdr + 1; k++) sz.insert(k);
          size_t pos = hdr; for(unsigned b = 0; b < SH[sh][0] + SH[sh][1]; b++) { pos += meta; for(long d = -1; d <= 1; d++) sz.insert((uint64_t)((long)pos + d)); }
          for(unsigned b = 0; b < (SH[sh][0] + SH[sh][1]) * 128u; b++) { pos += ins; if(b % 128 == 127 || b % 128 == 0 || b % 16 == 5) for(long d = -1; d <= 1; d++) sz.insert((uint64_t)((long)pos + d)); }
          for(uint64_t w = 1; w * 65536 < calc + 65536; w++) for(long d = -2; d <= 2; d++) { sz.insert((uint64_t)((long)(w * 65536) + d)); sz.insert((uint64_t)((long)(w * 65536 + hdr + meta * (SH[sh][0] + SH[sh][1])) + d)); }   // 16-bit wrap points
          sz.insert(calc - 1); sz.insert(calc); sz.insert(calc + 2);
          for(uint64_t x : sz) if(x <= calc + 2) cases.push_back({(uint64_t)sh, (uint64_t)ver, x}); }
      en::Family F; F.name = "dest_sizes_many_banks"; F.count = cases.size(); F.chunk = 64; F.budget_s = 20; F.describe = "bank shapes (8+1, 1+8, 8+8, 9+2, 16+3, 3+16, 7+7" + std::string(thorough ? ", 64+64, 128+1, 1+128" : "") + ") x version {1,2} x destination sizes at every header byte, every bank-meta boundary +-1, instrument boundaries +-1 (first/last/every 16th of each bank), multiples of 65536 +-2 and the needed size -1/+0/+2";
      F.run = [](uint64_t i, en::CaseOut &o) { unsigned sh = (unsigned)cases[i][0]; int ver = (int)cases[i][1]; size_t sz = (size_t)cases[i][2];
        WOPNFile *f = make_file(SH[sh][0], SH[sh][1], 3); size_t calc = WOPN_CalculateBankFileSize(f, (uint16_t)ver);
        static __thread size_t need_cache[10][3]; size_t &need = need_cache[sh][ver]; if(!need) need = written_size(calc + 8, [&](uint8_t *d, size_t c) { return WOPN_SaveBankToMem(f, d, c, (uint16_t)ver, 0); });
        if(need == (size_t)-1 || need > calc) { o.fail("C15/calculated-size-too-small", "a successful save writes " + std::to_string(need) + " bytes, calculator says " + std::to_string(calc)); WOPN_Free(f); return; }
        // the destination is the first sz bytes of an arena that is large enough for the whole image: an overrun lands in the guard area, not in foreign memory
        size_t arena = calc + 64; uint8_t *blk = (uint8_t *)malloc(arena); memset(blk, 0xA5, arena);
        int rc = WOPN_SaveBankToMem(f, blk, sz, (uint16_t)ver, 0);
        size_t first_bad = (size_t)-1; for(size_t k = sz; k < arena; k++) if(blk[k] != 0xA5) { first_bad = k; break; }
        if(sz < need) { if(rc == 0) o.fail("C15/small-destination-accepted", "destination of " + std::to_string(sz) + " bytes (needed " + std::to_string(need) + ") accepted for " + std::to_string(SH[sh][0]) + "+" + std::to_string(SH[sh][1]) + " banks, version " + std::to_string(ver)); else o.tags |= 1ull << T_REFUSED_SMALL; }
        else if(sz >= calc && rc != 0) o.fail("C15/sufficient-destination-refused", "destination of " + std::to_string(sz) + " bytes (calculated size " + std::to_string(calc) + ") refused");
        if(first_bad != (size_t)-1) o.fail("C15/destination-overrun", "wrote byte " + std::to_string(first_bad) + " beyond a destination of " + std::to_string(sz) + " bytes (" + std::to_string(SH[sh][0]) + "+" + std::to_string(SH[sh][1]) + " banks, version " + std::to_string(ver) + ")");
        if(i % 997 == 0) o.sample = std::to_string(SH[sh][0]) + "+" + std::to_string(SH[sh][1]) + " banks, version " + std::to_string(ver) + ", destination " + std::to_string(sz) + " of " + std::to_string(need);
        free(blk); WOPN_Free(f); o.nontrivial = true; };
      fams.push_back(F); }
    { // accepted byte strings: header byte substitutions of valid v1/v2 files
      en::Family F; F.name = "accepted_header_bytes"; F.count = 2 * 20 * 256; F.chunk = 64; F.budget_s = 20; F.describe = "each of the first 20 bytes of a valid v2 and v1 file x all 256 values; oracle applies to the strings the loader accepts (version field 0/1 under the v2 magic, zero bank counts, garbage flag bits)";
      F.run = [](uint64_t i, en::CaseOut &o) { unsigned v = i % 256, pos = (i / 256) % 20, which = (unsigned)(i / (256 * 20)); std::vector<uint8_t> b = which ? g_valid_v1 : g_valid_v2;
        if(b[pos] == v) { o.skip = true; return; } b[pos] = (uint8_t)v;
        // keep the size consistent when a count byte was changed: pad with a repeating valid instrument image so the declared banks exist
        if(pos >= 11 && pos < 18) { size_t want = 20 + (size_t)70000 * 8; (void)want; }
        o.input_hex = vu::hex(b.data(), std::min<size_t>(24, b.size())); if(v == 0 && pos % 4 == 0) o.sample = "byte " + std::to_string(pos) + " of a valid v" + (which ? "1" : "2") + " file := 0..255";
        accepted_identity(b, o); };
      fams.push_back(F); }
    { // accepted strings with zero / small bank counts and a body that is long enough, all versions 0,1,2 under the v2 magic, unterminated names
      en::Family F; F.name = "accepted_shapes"; F.count = 3 * 4 * 4 * 3; F.chunk = 4; F.budget_s = 20; F.describe = "version field {0,1,2} under the v2 magic x melodic count {0,1,2,3} x percussion count {0,1,2,3} x names {terminated, 32 unterminated bytes, high-bit bytes}";
      F.run = [](uint64_t i, en::CaseOut &o) { unsigned ver = i % 3, nm = (i / 3) % 4, np = (i / 12) % 4, nk = (unsigned)(i / 48);
        std::vector<uint8_t> b; const char *mg = "WOPN2-B2NK"; b.insert(b.end(), mg, mg + 11); b.push_back((uint8_t)ver); b.push_back(0); b.push_back(0); b.push_back((uint8_t)nm); b.push_back(0); b.push_back((uint8_t)np); b.push_back(0x15);
        if(ver >= 2) for(unsigned k = 0; k < nm + np; k++) { for(int c = 0; c < 32; c++) b.push_back(nk == 0 ? (c < 5 ? 'a' + c : 0) : nk == 1 ? 'Z' : (uint8_t)(0x80 + c)); b.push_back((uint8_t)k); b.push_back((uint8_t)(k * 2)); }
        size_t isz = ver >= 2 ? 69 : 65;
        for(unsigned k = 0; k < (nm + np) * 128; k++) { for(size_t c = 0; c < isz; c++) b.push_back(c < 32 ? (nk == 0 ? (c < 3 ? 'x' : 0) : nk == 1 ? 'N' : (uint8_t)(0xC0 + c)) : (uint8_t)(k * 7 + c)); }
        o.input_hex = vu::hex(b.data(), std::min<size_t>(24, b.size())); o.sample = "v2 magic, version field " + std::to_string(ver) + ", counts " + std::to_string(nm) + "+" + std::to_string(np) + ", name style " + std::to_string(nk);
        accepted_identity(b, o); };
      fams.push_back(F); }
    { OPNIFile x; memset(&x, 0, sizeof x); fill_ins(x.inst, 6); x.is_drum = 1; g_valid_opni2.resize(WOPN_CalculateInstFileSize(&x, 2)); g_valid_opni1.resize(WOPN_CalculateInstFileSize(&x, 1));
      WOPN_SaveInstToMem(&x, g_valid_opni2.data(), g_valid_opni2.size(), 2); WOPN_SaveInstToMem(&x, g_valid_opni1.data(), g_valid_opni1.size(), 1); }
    { en::Family F; F.name = "accepted_opni_bytes"; F.count = 2 * 16 * 256 + 2 * 100; F.chunk = 256; F.describe = "OPNI: each of the first 16 bytes of a valid v2/v1 instrument file x 256 values, and every truncation length 0..99; accepted strings must satisfy load(save(load(x))) == load(x)";
      F.run = [](uint64_t i, en::CaseOut &o) {
        std::vector<uint8_t> b;
        if(i < 2 * 16 * 256) { unsigned v = i % 256, pos = (i / 256) % 16, which = (unsigned)(i / 4096); b = which ? g_valid_opni1 : g_valid_opni2; if(b[pos] == v) { o.skip = true; return; } b[pos] = (uint8_t)v; }
        else { uint64_t r = i - 2 * 16 * 256; b = r < 100 ? g_valid_opni2 : g_valid_opni1; size_t n = (size_t)(r % 100); if(n > b.size()) { o.skip = true; return; } b.resize(n); }
        o.input_hex = vu::hex(b.data(), std::min<size_t>(24, b.size()));
        uint8_t *blk = (uint8_t *)malloc(b.size() ? b.size() : 1); memcpy(blk, b.data(), b.size());
        OPNIFile l1; memset(&l1, 0, sizeof l1); int rc = WOPN_LoadInstFromMem(&l1, blk, b.size()); free(blk);
        if(rc != 0) { o.tags |= 1ull << T_REJECTED; if(rc < WOPN_ERR_BAD_MAGIC || rc > WOPN_ERR_NULL_POINTER) o.fail("C15/inst-undefined-error-code", std::to_string(rc)); return; }
        o.tags |= 1ull << T_ACCEPTED; o.nontrivial = true;
        size_t need = WOPN_CalculateInstFileSize(&l1, l1.version); Guarded g(need);
        if(WOPN_SaveInstToMem(&l1, g.p(), need, l1.version) != 0 || !g.intact()) { o.fail("C15/accepted-inst/save-failed", "save of a loaded instrument failed"); return; }
        OPNIFile l2; memset(&l2, 0xFF, sizeof l2); uint8_t *b2 = (uint8_t *)malloc(need); memcpy(b2, g.p(), need); rc = WOPN_LoadInstFromMem(&l2, b2, need); free(b2);   // (a target that was used before: every byte set)
        std::string why;
        if(rc != 0) { o.fail("C15/accepted-inst/reload-failed", std::to_string(rc)); return; }
        if(l1.version != l2.version || l1.is_drum != l2.is_drum || !ins_eq(l1.inst, l2.inst, why)) o.fail("C15/accepted-inst/not-identity", "loaded version " + std::to_string(l1.version) + " reloaded version " + std::to_string(l2.version) + " " + why); };
      fams.push_back(F); }
    (void)thorough;
    return en::run_main(argc, argv, "C15", fams, TAGS, "a case is non-trivial when the save succeeded and the value was loaded back and compared field by field (or, for destination sizes, the guard bytes were checked; for byte strings, the loader accepted the string)");
}
