// C14 (d) — free-running ThreadSanitizer pass over the same thread bodies as the scheduled exploration.
// A cooperative scheduler's hand-offs are happens-before edges that blind a race detector, so the
// unsynchronised accesses are looked for here, with N free-running threads, one instance per thread.
// Parent mode: runs itself as a child per configuration, parses the TSan reports, groups them by the
// racing object / innermost library function. Built with -fsanitize=thread.
#define PL_NO_NEW_FILL
#include "player.hpp"
#include "util.hpp"
#include <pthread.h>
#include <sys/wait.h>
#include <unistd.h>
#include <fcntl.h>

namespace {

static std::vector<uint8_t> g_bank;
static const int CORES[] = {OPNMIDI_EMU_MAME, OPNMIDI_EMU_NUKED_YM3438, OPNMIDI_EMU_GENS, OPNMIDI_EMU_YMFM_OPN2, OPNMIDI_EMU_NP2, OPNMIDI_EMU_MAME_2608, OPNMIDI_EMU_YMFM_OPNA, OPNMIDI_EMU_NUKED_YM2612};
static const char *CNAME[] = {"MAME-YM2612", "Nuked-YM3438", "GENS", "YMFM-OPN2", "NP2-OPNA", "MAME-YM2608", "YMFM-OPNA", "Nuked-YM2612"};
static pthread_barrier_t g_bar; static int g_rounds = 1;

struct TArg { int core; long rate; int rounds; };
static void *body(void *p) {
    TArg *a = (TArg *)p; static __thread short buf[2048];
    pthread_barrier_wait(&g_bar);
    for(int r = 0; r < a->rounds; r++) {
        OPN2_MIDIPlayer *d = opn2_init(a->rate); if(!d) return NULL;
        opn2_switchEmulator(d, a->core); opn2_setNumChips(d, (a->core == OPNMIDI_EMU_NUKED_YM3438 || a->core == OPNMIDI_EMU_NUKED_YM2612) ? 1 : 2); opn2_openBankData(d, g_bank.data(), (long)g_bank.size());
        opn2_rt_noteOn(d, 0, 60, 120); opn2_rt_noteOn(d, 9, 40, 100); opn2_generate(d, 600, buf); opn2_rt_pitchBend(d, 0, 9000); opn2_generate(d, 600, buf);
        opn2_openBankData(d, g_bank.data(), 10);     // a failing call: writes the per-instance error string
        opn2_close(d);
    }
    return NULL;
}

static int child(const std::string &cfg) {   // cfg: "n:coreA,coreB,..."
    int n = atoi(cfg.c_str()); std::vector<int> cores; { size_t p = cfg.find(':'); std::string s = cfg.substr(p + 1) + ","; std::string cur; for(char c : s) { if(c == ',') { cores.push_back(atoi(cur.c_str())); cur.clear(); } else cur.push_back(c); } }
    pthread_barrier_init(&g_bar, NULL, (unsigned)n);
    std::vector<pthread_t> th((size_t)n); std::vector<TArg> args((size_t)n);
    for(int i = 0; i < n; i++) { args[(size_t)i].core = CORES[cores[(size_t)i % cores.size()]]; args[(size_t)i].rate = (i % 2) ? 22050 : 44100; args[(size_t)i].rounds = g_rounds; pthread_create(&th[(size_t)i], NULL, body, &args[(size_t)i]); }
    for(int i = 0; i < n; i++) pthread_join(th[(size_t)i], NULL);
    return 0;
}

struct Report { std::string sig, text; };
static void parse_reports(const std::string &err, const std::string &repo, std::vector<Report> &out) {
    size_t pos = 0;
    while((pos = err.find("WARNING: ThreadSanitizer:", pos)) != std::string::npos) {
        size_t end = err.find("==================", pos); if(end == std::string::npos) end = err.size();
        std::string blk = err.substr(pos, end - pos); pos = end;
        std::string kind = blk.substr(26, blk.find(' ', 26) == std::string::npos ? 10 : blk.find('(') - 26); while(!kind.empty() && (kind.back() == ' ' || kind.back() == '\n')) kind.pop_back();
        // racing object
        std::string obj; size_t g = blk.find("Location is global '");
        if(g != std::string::npos) { size_t e = blk.find('\'', g + 20); obj = "global:" + blk.substr(g + 20, e - g - 20); }
        else if(blk.find("Location is heap block") != std::string::npos) obj = "heap"; else if(blk.find("Location is stack") != std::string::npos) obj = "stack"; else obj = "?";
        // innermost frame of the first access (for the report text only) and the source file of the racing code
        std::string file; size_t rp = blk.find(repo + "/src/"); if(rp != std::string::npos) { size_t e = blk.find_first_of(": \n", rp); file = blk.substr(rp + repo.size() + 5, e - rp - repo.size() - 5); }
        if(obj == "heap" || obj == "stack" || obj == "?") { // no named object: use the function of the first access
            size_t fp = blk.find("#0 "); if(fp != std::string::npos) { size_t le = blk.find('\n', fp); std::string line = blk.substr(fp + 3, le - fp - 3); std::string fn = line.substr(0, line.find(' ')); size_t par = fn.find('('); if(par != std::string::npos) fn = fn.substr(0, par); obj += ":" + fn; } }
        Report r; r.sig = "race/" + obj + (file.empty() ? "" : "@" + file); r.text = blk.substr(0, 3000);
        out.push_back(r);
    }
}

static std::string run_child(const char *self, const std::string &cfg) {
    char tpl[] = "/tmp/opnverif-tsan-XXXXXX"; int fd = mkstemp(tpl); pid_t p = fork();
    if(p == 0) { dup2(fd, 2); setenv("TSAN_OPTIONS", "halt_on_error=0:report_signal_unsafe=0:history_size=4:second_deadlock_stack=0:exitcode=0", 1); execl(self, self, "--child", cfg.c_str(), (char *)NULL); _exit(127); }
    int st; waitpid(p, &st, 0); close(fd); std::string err; vu::read_file(tpl, err); unlink(tpl); return err;
}

} // namespace

int main(int argc, char **argv) {
    std::string out, tier = "quick", replay; std::string childcfg;
    for(int i = 1; i < argc; i++) { std::string k = argv[i]; auto val = [&]() { return i + 1 < argc ? std::string(argv[++i]) : std::string(); }; if(k == "--out") out = val(); else if(k == "--tier") tier = val(); else if(k == "--child") childcfg = val(); else if(k == "--replay-tsan") replay = val(); else if(k.rfind("--", 0) == 0) val(); }
    { WOPNFile *f = WOPN_Init(1, 1); f->version = 2; for(int s = 0; s < 2; s++) { WOPNBank *bk = s ? f->banks_percussive : f->banks_melodic; for(int i = 0; i < 128; i++) { WOPNInstrument &w = bk->ins[i]; memset(&w, 0, sizeof w); w.fbalg = 0x3C; w.lfosens = 0x13; for(int op = 0; op < 4; op++) { w.operators[op].dtfm_30 = 1; w.operators[op].level_40 = 20; w.operators[op].rsatk_50 = 0x1F; w.operators[op].susrel_80 = 0x2F; } w.delay_on_ms = 1000; w.delay_off_ms = 100; w.percussion_key_number = s ? 45 : 0; } }
      f->lfo_freq = 0x0B; size_t sz = WOPN_CalculateBankFileSize(f, 2); g_bank.resize(sz); WOPN_SaveBankToMem(f, g_bank.data(), sz, 2, 0); WOPN_Free(f); }
    if(!childcfg.empty()) return child(childcfg);
    std::string repo = getenv("VERIF_REPO") ? getenv("VERIF_REPO") : "/repo"; { char rp[4096]; if(realpath(repo.c_str(), rp)) repo = rp; }
    double t0 = vu::now_s();
    if(!replay.empty()) {   // "cfg|signature": re-run the configuration (up to 3 times) and look for the same race
        size_t bar = replay.find('|'); std::string cfg = replay.substr(0, bar), want = replay.substr(bar + 1); bool found = false; std::string text;
        for(int k = 0; k < 3 && !found; k++) { std::vector<Report> rs; parse_reports(run_child(argv[0], cfg), repo, rs); for(auto &r : rs) if(r.sig == want) { found = true; text = r.text; } }
        vu::J j = vu::J::obj(); j.set("violation", found); j.set("kind", "monitor"); j.set("sig", "C14/tsan/" + want); j.set("detail", text); printf("REPLAY-RESULT %s\n", j.str().c_str()); return found ? 3 : 0;
    }
    // configurations: every core against itself with 2 threads, all cores mixed with 4 and 8 threads
    std::vector<std::string> cfgs; for(int c = 0; c < 8; c++) cfgs.push_back("2:" + std::to_string(c)); cfgs.push_back("8:0,1,2,3,4,5,6,7"); if(tier == "thorough") { cfgs.push_back("4:0,1,2,3"); cfgs.push_back("4:4,5,6,7"); } if(tier == "thorough") { for(int c = 0; c < 8; c++) cfgs.push_back("4:" + std::to_string(c) + "," + std::to_string((c + 1) % 8)); cfgs.push_back("8:0,0,0,0,5,5,5,5"); }
    std::map<std::string, std::pair<std::string, std::string>> groups; std::map<std::string, int> counts; vu::J samples = vu::J::arr(); uint64_t total_reports = 0;
    for(auto &cfg : cfgs) { std::vector<Report> rs; parse_reports(run_child(argv[0], cfg), repo, rs); total_reports += rs.size(); samples.push(cfg + ": " + std::to_string(rs.size()) + " report(s)");
        for(auto &r : rs) { counts[r.sig]++; if(!groups.count(r.sig)) groups[r.sig] = {cfg, r.text}; } }
    vu::J j = vu::J::obj(); j.set("property", "C14"); j.set("engine", "tsan"); j.set("tier", tier); j.set("evaluations", (long long)cfgs.size()); j.set("distinct_nontrivial", (long long)cfgs.size()); j.set("exhaustive", false);
    j.set("tsan_reports", (long long)total_reports); j.set("samples", samples);
    vu::J vs = vu::J::arr();
    for(auto &g : groups) { vu::J v = vu::J::obj(); v.set("kind", "monitor"); v.set("sig", "C14/tsan/" + g.first); v.set("detail", g.second.second); v.set("count", counts[g.first]); vu::J ra = vu::J::arr(); ra.push("--replay-tsan"); ra.push(g.second.first + "|" + g.first); v.set("replay_args", ra); vu::J ops = vu::J::arr(); ops.push("threads " + g.second.first); v.set("ops", ops); vs.push(v); }
    j.set("violations", vs); j.set("wall_s", vu::now_s() - t0);
    if(!out.empty()) vu::write_file(out, j.str()); else printf("%s\n", j.str().c_str());
    return 0;
}
