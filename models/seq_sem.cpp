// C07 / C08 / C09 — sequencer semantics on generated Standard MIDI Files (E2, wide seam: public API,
// raw-event hook, null chips with frame counter).  --prop selects the property.
#include "player.hpp"
#include "enumx.hpp"
#include "gen_music.hpp"

namespace {

typedef gm::Bytes Bytes;
static std::string g_prop = "C07";
static std::vector<uint8_t> g_bank;

enum EK { K_ON, K_OFF, K_ON0, K_CC7, K_PROG, K_BEND, K_CPRESS, K_PPRESS, K_SYSEX, K_TEXT, K_MARKER, K_TEMPO_A, K_TEMPO_B, K_EOT, K_NK,
          K_CC64, K_CC10, K_CC11, K_BANKM, K_BANKL, K_RPN, K_LOOPSTART, K_LOOPEND, K_CC111, K_DEV_A, K_DEV_B };
static const char *KN[] = {"noteOn", "noteOff", "noteOn(vel0)", "cc7", "program", "bend", "chanPressure", "polyPressure", "sysex", "text", "marker", "tempoA", "tempoB", "EOT", "?", "cc64", "cc10", "cc11", "bankMSB", "bankLSB", "rpn0", "loopStart", "loopEnd", "cc111", "deviceName(A)", "deviceName(B)"};
static const uint32_t TEMPO_A = 300000, TEMPO_B = 750000;

struct Item { uint32_t delta; int kind; };
struct Song { unsigned format = 0, division = 96; std::vector<std::vector<Item>> tracks; std::vector<uint32_t> eot_delta; bool running = false; };

struct Exp {       // expected event
    int track, idx; uint32_t tick; double time; int kind, ch, d0, d1; Bytes payload; bool matched = false; int row;
};
struct Got { int type, subtype, ch; Bytes data; double now; uint64_t frames; int keyon = 0; };

static int ev_value(int idx) { return 10 + idx; }

static void encode_event(gm::Track &t, const Item &it, int ch, int idx, int &running_status, bool use_running) {
    gm::put_varlen(t.d, it.delta);
    auto chan = [&](uint8_t st, std::initializer_list<uint8_t> data) { if(!(use_running && running_status == st)) t.d.push_back(st); running_status = st; t.d.insert(t.d.end(), data); };
    uint8_t v = (uint8_t)ev_value(idx);
    switch(it.kind) {
    case K_ON: chan((uint8_t)(0x90 | ch), {60, v}); break;
    case K_OFF: chan((uint8_t)(0x80 | ch), {60, v}); break;
    case K_ON0: chan((uint8_t)(0x90 | ch), {61, 0}); break;
    case K_CC7: chan((uint8_t)(0xB0 | ch), {7, v}); break;
    case K_CC64: chan((uint8_t)(0xB0 | ch), {64, (uint8_t)(idx & 1 ? 0 : 127)}); break;
    case K_CC10: chan((uint8_t)(0xB0 | ch), {10, v}); break;
    case K_CC11: chan((uint8_t)(0xB0 | ch), {11, v}); break;
    case K_BANKM: chan((uint8_t)(0xB0 | ch), {0, (uint8_t)(idx & 1)}); break;
    case K_BANKL: chan((uint8_t)(0xB0 | ch), {32, (uint8_t)(idx & 1)}); break;
    case K_RPN: chan((uint8_t)(0xB0 | ch), {101, 0}); t.d.push_back(0); chan((uint8_t)(0xB0 | ch), {100, 0}); t.d.push_back(0); chan((uint8_t)(0xB0 | ch), {6, (uint8_t)(2 + idx)}); break;
    case K_CC111: chan((uint8_t)(0xB0 | ch), {111, 0}); break;
    case K_PROG: chan((uint8_t)(0xC0 | ch), {(uint8_t)(idx & 1)}); break;
    case K_BEND: chan((uint8_t)(0xE0 | ch), {v, (uint8_t)(0x40 + idx)}); break;
    case K_CPRESS: chan((uint8_t)(0xD0 | ch), {v}); break;
    case K_PPRESS: chan((uint8_t)(0xA0 | ch), {60, v}); break;
    case K_SYSEX: running_status = -1; t.d.push_back(0xF0); t.d.push_back(4); t.d.push_back(0x7D); t.d.push_back((uint8_t)ch); t.d.push_back(v); t.d.push_back(0xF7); break;
    case K_TEXT: running_status = -1; t.d.push_back(0xFF); t.d.push_back(0x01); t.d.push_back(2); t.d.push_back((uint8_t)('a' + ch)); t.d.push_back(v); break;
    case K_MARKER: running_status = -1; t.d.push_back(0xFF); t.d.push_back(0x06); t.d.push_back(3); t.d.push_back('m'); t.d.push_back((uint8_t)('a' + ch)); t.d.push_back(v); break;
    case K_DEV_A: case K_DEV_B: running_status = -1; t.d.push_back(0xFF); t.d.push_back(0x09); t.d.push_back(1); t.d.push_back(it.kind == K_DEV_A ? 'A' : 'B'); break;
    case K_LOOPSTART: running_status = -1; t.d.push_back(0xFF); t.d.push_back(0x06); t.d.push_back(9); gm::put_str(t.d, "loopStart"); break;
    case K_LOOPEND: running_status = -1; t.d.push_back(0xFF); t.d.push_back(0x06); t.d.push_back(7); gm::put_str(t.d, "loopEnd"); break;
    case K_TEMPO_A: case K_TEMPO_B: { uint32_t us = it.kind == K_TEMPO_A ? TEMPO_A : TEMPO_B; running_status = -1; t.d.push_back(0xFF); t.d.push_back(0x51); t.d.push_back(3); t.d.push_back((uint8_t)(us >> 16)); t.d.push_back((uint8_t)(us >> 8)); t.d.push_back((uint8_t)us); break; }
    }
}

static Bytes encode(const Song &s) {
    std::vector<Bytes> tr;
    for(size_t k = 0; k < s.tracks.size(); k++) {
        gm::Track t; int rs = -1;
        for(size_t i = 0; i < s.tracks[k].size(); i++) encode_event(t, s.tracks[k][i], (int)k, (int)i, rs, s.running);
        t.eot(s.eot_delta[k]);
        tr.push_back(t.d);
    }
    return gm::smf(s.format, s.division, tr);
}

// Reference interpreter (from the SMF specification and the statement of C07)
static void reference(const Song &s, std::vector<Exp> &out, double &length) {
    out.clear();
    // tempo map from track 0
    std::vector<std::pair<uint32_t, uint32_t>> tm;
    { uint32_t tick = 0; for(auto &it : s.tracks[0]) { tick += it.delta; if(it.kind == K_TEMPO_A) tm.push_back({tick, TEMPO_A}); else if(it.kind == K_TEMPO_B) tm.push_back({tick, TEMPO_B}); } }
    auto time_of = [&](uint32_t tick) { double t = 0; uint32_t pos = 0; double us = 500000; for(auto &p : tm) { if(p.first >= tick) break; t += (double)(p.first - pos) * us / 1e6 / s.division; pos = p.first; us = p.second; } t += (double)(tick - pos) * us / 1e6 / s.division; return t; };
    length = 0;
    for(size_t k = 0; k < s.tracks.size(); k++) {
        uint32_t tick = 0; int row = 0; uint32_t last_row_tick = 0;
        for(size_t i = 0; i < s.tracks[k].size(); i++) {
            const Item &it = s.tracks[k][i];
            if(it.delta > 0) { row++; }
            tick += it.delta; last_row_tick = tick;
            Exp e; e.track = (int)k; e.idx = (int)i; e.tick = tick; e.time = time_of(tick); e.kind = it.kind; e.ch = (int)k; e.d0 = 0; e.d1 = ev_value((int)i); e.row = row;
            out.push_back(e);
        }
        // End of Track: alone at its tick -> delivered with the preceding event (trailing silence skipped)
        Exp e; e.track = (int)k; e.idx = (int)s.tracks[k].size(); e.kind = K_EOT; e.ch = 0; e.d0 = e.d1 = 0;
        if(s.eot_delta[k] > 0) { e.tick = last_row_tick; e.row = row + 1; } else { e.tick = tick; e.row = row; }
        e.time = time_of(e.tick);
        if(s.tracks[k].empty() && s.eot_delta[k] > 0) { e.tick = 0; e.time = 0; }
        out.push_back(e);
        if(e.time > length) length = e.time;
        for(auto &x : out) if(x.track == (int)k && x.time > length) length = x.time;
    }
    length += 1.0;
}

static std::vector<Got> g_got; static double g_now = 0; static pl::Instance *g_inst = nullptr;
static void raw_hook(void *, OPN2_UInt8 type, OPN2_UInt8 subtype, OPN2_UInt8 ch, const OPN2_UInt8 *data, size_t len) {
    Got g; g.type = type; g.subtype = subtype; g.ch = ch; g.data.assign(data, data + len); g.now = g_now; g.frames = g_inst ? g_inst->tap.frames : 0; g.keyon = g_inst ? (int)g_inst->tap.keyon_count() : 0; g_got.push_back(g);
}

static int classify(const Got &g, int &ch, int &val) {
    ch = g.ch; val = g.data.size() > 1 ? g.data[1] : (g.data.empty() ? 0 : g.data[0]);
    switch(g.type) {
    case 0x09: return K_ON;
    case 0x08: if(g.data.size() > 0 && g.data[0] == 61) return K_ON0; return K_OFF;
    case 0x0B: if(g.data.empty()) return -1; switch(g.data[0]) { case 7: return K_CC7; case 64: return K_CC64; case 10: return K_CC10; case 11: return K_CC11; case 0: return K_BANKM; case 32: return K_BANKL; case 101: case 100: case 6: return K_RPN; default: return -1; }
    case 0x0C: val = -1; return K_PROG;
    case 0x0E: val = g.data.size() > 0 ? g.data[0] : 0; return K_BEND;
    case 0x0D: val = g.data.size() > 0 ? g.data[0] : 0; return K_CPRESS;
    case 0x0A: return K_PPRESS;
    case 0xF0: if(g.data.size() >= 4) { ch = g.data[2]; val = g.data[3]; } return K_SYSEX;
    case 0xFF:
        if(g.subtype == 0x01 && g.data.size() == 2) { ch = g.data[0] - 'a'; val = g.data[1]; return K_TEXT; }
        if(g.subtype == 0x06 && g.data.size() == 3) { ch = g.data[1] - 'a'; val = g.data[2]; return K_MARKER; }
        if(g.subtype == 0x51) { ch = 0; val = -1; return (g.data.size() == 3 && ((g.data[0] << 16 | g.data[1] << 8 | g.data[2]) == (int)TEMPO_A)) ? K_TEMPO_A : K_TEMPO_B; }
        if(g.subtype == 0x2F) { ch = 0; val = -1; return K_EOT; }
        return -1;
    }
    return -1;
}

struct Cfg { double mult = 1.0; int driver = 0; int play_req = 1024; int track_off = -1, track_solo = -1, chan_off = -1; double step = 0.001; bool loop = false; int loop_count = 0; int prior = 0; /* another song loaded, masked and partly played on the same handle before this one */ };

static std::string song_str(const Song &s) {
    std::string r = "fmt" + std::to_string(s.format) + " div" + std::to_string(s.division) + (s.running ? " running-status" : "");
    for(size_t k = 0; k < s.tracks.size(); k++) { r += " | T" + std::to_string(k) + ":"; for(auto &it : s.tracks[k]) r += " +" + std::to_string(it.delta) + " " + KN[it.kind]; r += " +" + std::to_string(s.eot_delta[k]) + " EOT"; }
    return r;
}

static void play_song(pl::Instance &I, const Cfg &c, en::CaseOut &o, double horizon_s) {
    OPN2_MIDIPlayer *d = I.dev;
    g_got.clear(); g_now = 0; g_inst = &I;
    const double G = 1e-6;
    if(c.driver == 0) {
        double ret = opn2_tickEvents(d, 0.0, G); int guard = 0;
        while(!opn2_atEnd(d) && guard++ < 100000 && g_now < horizon_s) { double s = ret; g_now += s; ret = opn2_tickEvents(d, s, G); }
    } else if(c.driver == 1) {
        opn2_tickEvents(d, 0.0, G);
        while(!opn2_atEnd(d) && g_now < horizon_s) { g_now += c.step; opn2_tickEvents(d, c.step, G); }
    } else {
        static short buf[70000 + 16];
        while(true) { int r = opn2_play(d, c.play_req, buf); if(r <= 0) break; if((double)I.tap.frames / 44100.0 > horizon_s) break; }
    }
    (void)o;
}

static bool load_song(pl::Instance &I, const Bytes &file, const Cfg &c, en::CaseOut &o) {
    I.create(44100);
    OPN2_MIDIPlayer *d = I.dev;
    opn2_setNumChips(d, 2);
    pl::must(opn2_openBankData(d, g_bank.data(), (long)g_bank.size()), "opn2_openBankData(generated bank)", d);
    opn2_setRawEventHook(d, raw_hook, NULL);
    g_inst = &I;   // the raw-event hook reads the tap of the instance under test (a pointer left from an earlier case would dangle)
    if(c.prior) {   // non-initial handle: a three-track song was loaded before, some of its tracks switched off / chosen as solo, part of it played. Track options belong to the song they were set for.
        gm::Track t0, t1, t2; t0.tempo(0, 400000).ev(0, {0x90, 50, 100}).ev(48, {0x80, 50, 0}).eot(0); t1.ev(0, {0x91, 52, 100}).ev(48, {0x81, 52, 0}).eot(0); t2.ev(0, {0x92, 54, 100}).ev(48, {0x82, 54, 0}).eot(0);
        Bytes other = gm::smf(1, 96, {t0.d, t1.d, t2.d});
        if(opn2_openData(d, other.data(), (unsigned long)other.size()) != 0) { o.fail(g_prop + "/well-formed-file-rejected", std::string("opn2_openData failed on the earlier song: ") + opn2_errorInfo(d)); return false; }
        if(c.prior == 1) { opn2_setTrackOptions(d, 0, OPNMIDI_TrackOption_Off); opn2_setTrackOptions(d, 1, OPNMIDI_TrackOption_Off); }
        else if(c.prior == 2) opn2_setTrackOptions(d, 1, OPNMIDI_TrackOption_Solo);
        else if(c.prior == 3) { opn2_setTrackOptions(d, 1, OPNMIDI_TrackOption_Off); opn2_setTrackOptions(d, 0, OPNMIDI_TrackOption_Solo); }
        else if(c.prior == 4) { opn2_setTrackOptions(d, 2, OPNMIDI_TrackOption_Off); opn2_setTempo(d, 2.0); }
        for(int j = 0; j < 10; j++) opn2_tickEvents(d, 0.01, 1e-6);
        if(c.prior == 4) opn2_setTempo(d, 1.0);
        g_got.clear();
    }
    if(opn2_openData(d, file.data(), (unsigned long)file.size()) != 0) { o.fail(g_prop + "/well-formed-file-rejected", std::string("opn2_openData failed: ") + opn2_errorInfo(d)); return false; }
    if(c.loop) { opn2_setLoopEnabled(d, 1); opn2_setLoopCount(d, c.loop_count); }
    if(c.mult != 1.0) opn2_setTempo(d, c.mult);
    if(c.track_off >= 0) opn2_setTrackOptions(d, (size_t)c.track_off, OPNMIDI_TrackOption_Off);
    if(c.track_solo >= 0) opn2_setTrackOptions(d, (size_t)c.track_solo, OPNMIDI_TrackOption_Solo);
    if(c.chan_off >= 0) opn2_setChannelEnabled(d, (size_t)c.chan_off, 0);
    return true;
}

// C07 oracle
static void check_c07(const Song &s, const Cfg &c, en::CaseOut &o) {
    Bytes file = encode(s);
    std::vector<Exp> exp; double length; reference(s, exp, length);
    pl::Instance I;
    if(!load_song(I, file, c, o)) return;
    OPN2_MIDIPlayer *d = I.dev;
    char b[400];
    std::string ctx = " [" + song_str(s) + "; multiplier " + std::to_string(c.mult) + " driver " + std::to_string(c.driver) + (c.driver == 2 ? " req " + std::to_string(c.play_req) : "") + (c.track_off >= 0 ? " track " + std::to_string(c.track_off) + " off" : "") + (c.track_solo >= 0 ? " solo " + std::to_string(c.track_solo) : "") + (c.chan_off >= 0 ? " channel " + std::to_string(c.chan_off) + " off" : "") + (c.prior ? "; second song of the handle, earlier song with track options variant " + std::to_string(c.prior) : "") + "]";
    double tl = opn2_totalTimeLength(d);
    if(fabs(tl - length) > 1e-6 + 1e-9 * length) { snprintf(b, sizeof b, "opn2_totalTimeLength = %.9f, latest event time + 1 s = %.9f", tl, length); o.fail("C07/length", b + ctx); return; }
    I.tap.log.clear();
    play_song(I, c, o, length / c.mult + 5.0);
    // which expected events must be delivered?
    auto enabled_track = [&](int t) { if(t == c.track_off) return false; if(c.track_solo >= 0) return t == c.track_solo; return true; };   // "disabled or non-solo tracks contribute no notes": both switches apply
    // notes started at the chips = off->on transitions of the key-on register (pitch updates re-write key-on for a channel that is already on)
    size_t keyons = 0; { std::map<int, bool> on; for(auto &w : I.tap.log) if(w.kind == 0 && w.reg == 0x28 && w.port == 0) { int id = w.chip * 8 + (w.val & 7); bool k = (w.val & 0xF0) != 0; if(k && !on[id]) keyons++; on[id] = k; } }
    size_t exp_keyons = 0;
    for(auto &e : exp) if(e.kind == K_ON && enabled_track(e.track) && e.ch != c.chan_off) exp_keyons++;
    // match
    std::vector<int> order_of(exp.size(), -1);
    int gi = 0;
    for(auto &g : g_got) {
        int ch, val; int k = classify(g, ch, val);
        if(k < 0) { snprintf(b, sizeof b, "event not in the file delivered to the raw-event hook: type %02X subtype %02X channel %d data %s", g.type, g.subtype, g.ch, vu::hex(g.data).c_str()); o.fail("C07/extra-event", b + ctx); return; }
        int found = -1;
        for(size_t i = 0; i < exp.size(); i++) {
            Exp &e = exp[i]; if(e.matched || e.kind != k) continue;
            if(k == K_EOT || k == K_TEMPO_A || k == K_TEMPO_B) { found = (int)i; break; }      // anonymous kinds: first unmatched in expected time order (below)
            if(e.ch != ch) continue;
            if(k == K_PROG || k == K_ON0 || k == K_BANKM || k == K_BANKL || k == K_CC64 || k == K_RPN) { found = (int)i; break; }
            if(e.d1 == val) { found = (int)i; break; }
        }
        if(k == K_EOT) { // pick the unmatched EOT with the smallest expected time
            found = -1; for(size_t i = 0; i < exp.size(); i++) if(!exp[i].matched && exp[i].kind == K_EOT && enabled_track(exp[i].track) && (found < 0 || exp[i].time < exp[(size_t)found].time)) found = (int)i; }
        if(found < 0) { snprintf(b, sizeof b, "%s on channel/track %d value %d delivered but not expected (again)", KN[k], ch, val); o.fail("C07/duplicate-or-unexpected", b + ctx); return; }
        Exp &e = exp[(size_t)found]; e.matched = true; order_of[(size_t)found] = gi++;
        if(!enabled_track(e.track) && !(e.track == 0 && (k == K_TEMPO_A || k == K_TEMPO_B))) { snprintf(b, sizeof b, "%s of disabled/non-solo track %d was delivered", KN[k], e.track); o.fail("C07/disabled-track-event", b + ctx); return; }
        // time
        double want = e.time / c.mult;
        if(c.driver == 0) { if(fabs(g.now - want) > 2e-6 + 1e-9 * want) { snprintf(b, sizeof b, "%s (track %d, tick %u) delivered at %.9f s, expected %.9f s (tick-driven with the returned delay)", KN[k], e.track, e.tick, g.now, want); o.fail(g.now > want ? "C07/time/late" : "C07/time/early", b + ctx); return; } }
        else if(c.driver == 1) { if(g.now < want - 2e-6 || g.now > want + c.step + 2e-6) { snprintf(b, sizeof b, "%s (track %d, tick %u) delivered at %.9f s, expected within 1 ms after %.9f s", KN[k], e.track, e.tick, g.now, want); o.fail(g.now > want ? "C07/time/late" : "C07/time/early", b + ctx); return; } }
        else { double wf = want * 44100.0; if((double)g.frames > wf + 1.0 || (double)g.frames < wf - 513.0) { snprintf(b, sizeof b, "%s (track %d, tick %u) took effect at audio frame %llu, expected frame %.1f (at most 512 early, never late)", KN[k], e.track, e.tick, (unsigned long long)g.frames, wf); o.fail((double)g.frames > wf ? "C07/audio/late" : "C07/audio/early", b + ctx); return; } }
    }
    for(size_t i = 0; i < exp.size(); i++) {
        Exp &e = exp[i]; if(e.matched) continue;
        if(!enabled_track(e.track)) continue;
        snprintf(b, sizeof b, "%s (track %d, index %d, tick %u) was never delivered", KN[e.kind], e.track, e.idx, e.tick); o.fail("C07/missing-event", b + ctx); return;
    }
    // order inside one tick of one track
    for(size_t k = 0; k < s.tracks.size(); k++) {
        bool sounding = false;   // key 60 of this track's channel, before the current tick
        std::map<int, std::vector<size_t>> rows;
        for(size_t i = 0; i < exp.size(); i++) if(exp[i].track == (int)k && exp[i].kind != K_EOT && exp[i].matched) rows[exp[i].row].push_back(i);
        for(auto &rw : rows) {
            auto &v = rw.second;
            for(size_t x = 0; x < v.size(); x++) for(size_t y = 0; y < v.size(); y++) {
                Exp &A = exp[v[x]], &B = exp[v[y]]; int oa = order_of[v[x]], ob = order_of[v[y]];
                bool ctrlA = A.kind == K_CC7 || A.kind == K_PROG || A.kind == K_CC64 || A.kind == K_CC10 || A.kind == K_CC11 || A.kind == K_BANKM || A.kind == K_BANKL;
                if(ctrlA && B.kind == K_ON && oa > ob) { snprintf(b, sizeof b, "track %d tick %u: %s delivered after a note-on of the same tick", (int)k, A.tick, KN[A.kind]); o.fail("C07/order/controller-after-noteon", b + ctx); return; }
                // note events of the one key: an inversion of the file order is justified only for a note-off of a note that was sounding before this tick overtaking a note-on
                if((A.kind == K_ON || A.kind == K_OFF) && (B.kind == K_ON || B.kind == K_OFF) && A.kind != B.kind && A.idx < B.idx && oa > ob && !(B.kind == K_OFF && sounding)) {
                    snprintf(b, sizeof b, "track %d tick %u: %s (index %d) precedes %s (index %d) in the file but was delivered after it; the key was %s before this tick", (int)k, A.tick, KN[A.kind], A.idx, KN[B.kind], B.idx, sounding ? "sounding" : "silent");
                    o.fail(B.kind == K_ON ? "C07/order/noteoff-moved-behind-later-noteon" : "C07/order/noteoff-of-silent-key-moved-before-noteon", b + ctx); return; }
                if(A.kind == K_OFF && B.kind == K_ON && sounding && A.idx < B.idx && oa > ob) { snprintf(b, sizeof b, "track %d tick %u: note-off of an already sounding note delivered after the note-on of the same tick", (int)k, A.tick); o.fail("C07/order/noteoff-after-noteon", b + ctx); return; }
                if(A.kind == B.kind && A.idx < B.idx && oa > ob) { snprintf(b, sizeof b, "track %d tick %u: two %s events changed their file order", (int)k, A.tick, KN[A.kind]); o.fail("C07/order/same-kind-reordered", b + ctx); return; }
            }
            // required promotion: the first note-off of a key that was sounding before this tick goes before every note-on of the tick, wherever it stands in the row
            if(sounding) { int first_off = -1; for(size_t x = 0; x < v.size(); x++) if(exp[v[x]].kind == K_OFF && (first_off < 0 || exp[v[x]].idx < exp[v[(size_t)first_off]].idx)) first_off = (int)x;
                if(first_off >= 0) for(size_t y = 0; y < v.size(); y++) if(exp[v[y]].kind == K_ON && order_of[v[y]] < order_of[v[(size_t)first_off]]) {
                    snprintf(b, sizeof b, "track %d tick %u: the key was sounding before this tick, but the note-on (index %d) was delivered before the first note-off of the tick (index %d)", (int)k, exp[v[y]].tick, exp[v[y]].idx, exp[v[(size_t)first_off]].idx);
                    o.fail("C07/order/sounding-note-not-shut-before-noteon", b + ctx); return; } }
            { std::vector<size_t> dv = v; std::sort(dv.begin(), dv.end(), [&](size_t x, size_t y) { return order_of[x] < order_of[y]; });   // state after the tick: in delivery order
              for(size_t x : dv) { if(exp[x].kind == K_ON) sounding = true; else if(exp[x].kind == K_OFF) sounding = false; } }
        }
        // across ticks: delivery order follows tick order
        for(size_t i = 0; i < exp.size(); i++) for(size_t j = 0; j < exp.size(); j++) if(exp[i].track == (int)k && exp[j].track == (int)k && exp[i].matched && exp[j].matched && exp[i].kind != K_EOT && exp[j].kind != K_EOT && exp[i].row < exp[j].row && order_of[i] > order_of[j]) {
            snprintf(b, sizeof b, "track %d: %s of tick %u delivered after %s of tick %u", (int)k, KN[exp[i].kind], exp[i].tick, KN[exp[j].kind], exp[j].tick); o.fail("C07/order/ticks-reordered", b + ctx); return; }
    }
    if(keyons != exp_keyons) { snprintf(b, sizeof b, "%zu key-on writes at the chips, %zu note-ons on enabled tracks/channels in the file", keyons, exp_keyons); o.fail("C07/notes-at-chip", b + ctx); return; }
    o.nontrivial = true;
}

// ---- grammars ------------------------------------------------------------------------------------
static const uint32_t DELTAS[] = {0, 1, 96, 200};
static const int KINDS1[] = {K_ON, K_OFF, K_ON0, K_CC7, K_PROG, K_BEND, K_CPRESS, K_PPRESS, K_SYSEX, K_TEXT, K_MARKER, K_TEMPO_A, K_TEMPO_B};   // 13
static const int KINDS2[] = {K_ON, K_OFF, K_CC7, K_TEXT, K_TEMPO_A};   // multi-track (tempo only used on track 0; on other tracks it is replaced by program change)
static const uint32_t DELTAS2[] = {0, 1, 96};

static uint64_t seqs_upto(uint64_t base, int n) { uint64_t t = 0, p = 1; for(int l = 0; l <= n; l++) { t += p; p *= base; } return t; }
static void nth_seq(uint64_t r, uint64_t base, std::vector<uint64_t> &digits) { digits.clear(); int len = 0; uint64_t pw = 1; while(r >= pw) { r -= pw; pw *= base; len++; } for(int k = 0; k < len; k++) { digits.push_back(r % base); r /= base; } }

static Song song1(uint64_t idx, int n_unused, unsigned division, bool running, uint32_t eot) {
    (void)n_unused; Song s; s.format = 0; s.division = division; s.running = running; s.tracks.resize(1); s.eot_delta = {eot};
    std::vector<uint64_t> dg; nth_seq(idx, 52, dg);
    for(auto x : dg) s.tracks[0].push_back({DELTAS[x % 4], KINDS1[x / 4]});
    return s;
}
static Song songN(uint64_t idx, int ntracks, int n) {
    Song s; s.format = 1; s.division = 96; s.tracks.resize((size_t)ntracks); s.eot_delta.assign((size_t)ntracks, 0);
    uint64_t per = seqs_upto(15, n);
    for(int k = 0; k < ntracks; k++) { uint64_t r = idx % per; idx /= per; std::vector<uint64_t> dg; nth_seq(r, 15, dg);
        for(auto x : dg) { int kind = KINDS2[x / 3]; if(kind == K_TEMPO_A && k != 0) kind = K_PROG; s.tracks[(size_t)k].push_back({DELTAS2[x % 3], kind}); } }
    s.eot_delta[(size_t)(idx % (uint64_t)ntracks)] = 96;   // one track ends with a lone End-of-Track
    return s;
}

} // namespace

#include "seq_sem_c08c09.inc"
#include "seq_sem_c17.inc"

int main(int argc, char **argv) {
    en::Args a = en::parse_args(argc, argv);
    if(a.extra.count("prop")) g_prop = a.extra["prop"];
    bool thorough = a.tier == "thorough";
    pl::install_hooks(true);
    { pl::BankSpec m; pl::InsSpec s; s.id = 1; for(int i = 0; i < 128; i++) m.ins[i] = s; pl::BankSpec m2 = m; m2.msb = 1; pl::BankSpec m3 = m; m3.lsb = 1; pl::BankSpec p; p.percussive = true; pl::InsSpec dd; dd.id = 2; dd.drum_key = 40; for(int i = 27; i < 88; i++) p.ins[i] = dd; g_bank = pl::make_wopn({m, m2, m3, p}); }
    std::vector<en::Family> fams;
    static const std::vector<std::string> TAGS = {};
    if(g_prop == "C07") {
        int n = thorough ? 4 : 3;
        { en::Family F; F.name = "one_track"; F.count = seqs_upto(52, n) * 2; F.chunk = 256; F.budget_s = 20; F.describe = "every format-0 file with up to " + std::to_string(n) + " (delta, event) pairs, delta in {0,1,96,200}, 13 event kinds (notes, vel-0 note-on, CC7, program, bend, pressures, SysEx, text, marker, two tempi), End-of-Track at delta {0,96}; division 96; tick-driven with the returned delay";
          F.run = [](uint64_t i, en::CaseOut &o) { Song s = song1(i >> 1, 0, 96, false, (i & 1) ? 96 : 0); if((i >> 1) % 30011 == 5) o.sample = song_str(s); Cfg c; check_c07(s, c, o); };
          fams.push_back(F); }
        { int nn = thorough ? 10 : 8;   // note-only rows: the same-tick ordering rule depends on what earlier rows left sounding, so long chains of presses/releases/re-triggers of one key matter
          static const int NK[] = {K_ON, K_OFF, K_ON0, K_CC7}; 
          en::Family F; F.name = "note_rows"; F.count = seqs_upto(4, nn) + seqs_upto(8, thorough ? 7 : 6); F.chunk = 256; F.budget_s = 30; F.describe = "every format-0 file of up to " + std::to_string(nn) + " events over {noteOn 60, noteOff 60} x delta {0,1} (chains of presses, releases, zero-length notes and same-tick re-triggers of one key), and of up to " + std::to_string(thorough ? 7 : 6) + " events over {noteOn, noteOff, noteOn vel 0 (key 61), cc7} x delta {0,1}";
          F.run = [nn](uint64_t i, en::CaseOut &o) { Song s; s.format = 0; s.division = 96; s.tracks.resize(1); s.eot_delta = {0}; std::vector<uint64_t> dg; uint64_t first = seqs_upto(4, nn);
            if(i < first) { nth_seq(i, 4, dg); for(auto x : dg) s.tracks[0].push_back({(uint32_t)(x % 2), NK[x / 2]}); } else { nth_seq(i - first, 8, dg); for(auto x : dg) s.tracks[0].push_back({(uint32_t)(x % 2), NK[x / 2]}); }
            if(i % 10007 == 3) o.sample = song_str(s); Cfg c; check_c07(s, c, o); };
          fams.push_back(F); }
        { static const unsigned DIV[] = {1, 96, 480}; static const double MU[] = {0.5, 1.0, 2.0}; static const int REQ[] = {2, 64, 1024, 1026, 70000};
          int n2 = thorough ? 3 : 2; uint64_t files = seqs_upto(52, n2);
          // variants: division x running status x multiplier x driver {self-fed ticks, 1 ms ticks, play with 5 request sizes}
          en::Family F; F.name = "one_track_variants"; F.count = files * 3 * 2 * 3 * 7; F.chunk = 256; F.budget_s = 30; F.describe = "every format-0 file with up to " + std::to_string(n2) + " events x division {1,96,480} x running status on/off x tempo multiplier {0.5,1,2} x driver {self-fed tickEvents, 1 ms tickEvents, opn2_play with request sizes 2/64/1024/1026/70000}";
          F.run = [files](uint64_t i, en::CaseOut &o) { uint64_t f = i % files; uint64_t r = i / files; unsigned dv = DIV[r % 3]; r /= 3; bool run = r % 2; r /= 2; double mu = MU[r % 3]; r /= 3; int drv = (int)r;
            Song s = song1(f, 0, dv, run, 96); Cfg c; c.mult = mu; if(drv >= 2) { c.driver = 2; c.play_req = REQ[drv - 2]; } else c.driver = drv;
            if(dv == 1) { if(drv >= 2) { o.skip = true; return; } c.step = 0.25; }   // division 1: songs last minutes; coarse fixed ticks, no audio-driven run
            if(i % 50021 == 3) o.sample = song_str(s) + " mult " + std::to_string(mu) + " driver " + std::to_string(drv); check_c07(s, c, o); };
          fams.push_back(F); }
        { int n2 = 2; uint64_t per = seqs_upto(15, n2);
          en::Family F; F.name = "two_tracks"; F.count = per * per * 2 * 10; F.chunk = 256; F.budget_s = 30; F.describe = "every format-1 file with 2 tracks of up to 2 events each over {noteOn, noteOff, cc7, text, tempo(track 0)/program} x delta {0,1,96}, one track ending with a lone End-of-Track; x masks {none, track 0 off, track 1 off, solo 0, solo 1, channel 1 off, and the four combinations of one track off with one track solo}";
          F.run = [per](uint64_t i, en::CaseOut &o) { uint64_t f = i % (per * per * 2); int mask = (int)(i / (per * per * 2)); Song s = songN(f, 2, 2); Cfg c; if(mask == 1) c.track_off = 0; else if(mask == 2) c.track_off = 1; else if(mask == 3) c.track_solo = 0; else if(mask == 4) c.track_solo = 1; else if(mask == 5) c.chan_off = 1;
            else if(mask >= 6) { c.track_off = (mask - 6) & 1; c.track_solo = ((mask - 6) >> 1) & 1; }   // off and solo together, on the same track or on different ones
            if(i % 40009 == 3) o.sample = song_str(s) + " mask " + std::to_string(mask); check_c07(s, c, o); };
          fams.push_back(F); }
        { int n2 = 2; uint64_t per = seqs_upto(15, n2);
          en::Family F; F.name = "two_tracks_second_song"; F.count = per * per * 2 * 4; F.chunk = 256; F.budget_s = 30; F.describe = "the same two-track files loaded as the SECOND song of a handle: a three-track song was loaded first, with {tracks 0+1 off, solo 1, track 1 off + solo 0, track 2 off at tempo x2}, and partly played; the new song has no options set and must play completely";
          F.run = [per](uint64_t i, en::CaseOut &o) { uint64_t f = i % (per * per * 2); Song s = songN(f, 2, 2); Cfg c; c.prior = 1 + (int)(i / (per * per * 2)); if(i % 40009 == 3) o.sample = song_str(s) + " prior " + std::to_string(c.prior); check_c07(s, c, o); };
          fams.push_back(F); }
        { // delta times over the boundaries of the variable-length quantity (1, 2, 3 and 4 bytes)
          static const uint32_t BD[] = {127, 128, 16383, 16384, 2097151, 2097152, 268435455};
          en::Family F; F.name = "varlen_delta_boundaries"; F.count = 7 * 8 * 2 * 2; F.chunk = 8; F.budget_s = 30; F.describe = "format-0 files {cc7, +D noteOn, +1 noteOff, +D2 text, End-of-Track} with D in {127,128,16383,16384,2097151,2097152,268435455} (variable-length quantities of 1..4 bytes), D2 in {0, the same set}, division {96,480}, End-of-Track delta {0, 2097152}; tick-driven with the returned delay";
          F.run = [](uint64_t i, en::CaseOut &o) { uint64_t r = i; uint32_t D = BD[r % 7]; r /= 7; uint32_t D2 = (r % 8) ? BD[r % 8 - 1] : 0; r /= 8; unsigned dv = (r % 2) ? 480 : 96; r /= 2; uint32_t eot = r ? 2097152u : 0u;
            Song s; s.format = 0; s.division = dv; s.tracks.resize(1); s.eot_delta = {eot}; s.tracks[0] = {{0, K_CC7}, {D, K_ON}, {1, K_OFF}, {D2, K_TEXT}};
            o.sample = song_str(s); Cfg c; check_c07(s, c, o); };
          fams.push_back(F); }
        { uint64_t per = seqs_upto(15, 1);
          en::Family F; F.name = "three_tracks"; F.count = per * per * per * 3 * 3; F.chunk = 128; F.budget_s = 30; F.describe = "every format-1 file with 3 tracks of up to 1 event each x lone End-of-Track position x driver {self-fed, 1 ms, play 1024}";
          F.run = [per](uint64_t i, en::CaseOut &o) { uint64_t f = i % (per * per * per * 3); int drv = (int)(i / (per * per * per * 3)); Song s = songN(f, 3, 1); Cfg c; c.driver = drv; check_c07(s, c, o); };
          fams.push_back(F); }
    } else if(g_prop == "C17") add_c17_families(fams, thorough);
    else add_c08_c09_families(fams, thorough);
    return en::run_main(argc, argv, g_prop.c_str(), fams, TAGS, "non-trivial: the file loaded and the complete delivered stream was compared with the reference interpreter");
}
