// C04 / C05 / C06 — voice allocation, note lifetime and channel choice, explored on the real
// real-time API (E1).  One harness, selected with --prop:
//   C04: structural invariants I1..I6 on the private bookkeeping + register tap after every call
//   C05: lock-step reference model of the MIDI key / pedal / sostenuto rules vs. the keyed-on set
//   C06: pre/post relation around every note-on (idle channel first, held notes keep their channel)
#include "player.hpp"
#include "mcx_main.hpp"
#include <regex>

namespace {

typedef OPNMIDIplay::MIDIchannel MCh;
typedef OPNMIDIplay::OpnChannel OCh;

enum K { NOTEON, NOTEOFF, CC, PANIC, RESETSTATE, PATCH, BEND, GEN, ARP, ALLOC, RELOADBANK, NUMCHIPS, SWITCHEMU, CHIPTYPE, RESET, REMOVEBANK, TICKSEQ, LOADSONG };
struct Op { K k; int ch, a, b; double ms; std::string name; std::string kind; bool config; };

static std::vector<uint8_t> g_bank;     // 1 melodic + 1 percussion bank
static std::vector<uint8_t> g_song;     // 2-track SMF for the sequencer-driven ops
static std::string g_prop = "C04";
static int g_chips = 1;
static int g_koff_scale = 1;   // --koff-scale: multiplies every release time of the bank (long release tails for the C06 scoring)

static const int CHS[2] = {0, 9};
static const int KEYS3[3] = {60, 62, 64};

static void build_bank() {
    pl::BankSpec m; m.percussive = false;
    pl::InsSpec a; a.id = 1; a.kon_ms = 500; a.koff_ms = 100; m.ins[0] = a;
    pl::InsSpec b; b.id = 2; b.kon_ms = 40000; b.koff_ms = 200; b.note_offset = 12; m.ins[1] = b;        // "fixed sustain", transposed (a note offset must not turn the instrument into a two-voice one)
    // program 2 stays blank
    pl::BankSpec p; p.percussive = true;
    pl::InsSpec d1; d1.id = 3; d1.kon_ms = 100; d1.koff_ms = 50; d1.drum_key = 40; p.ins[60] = d1;
    pl::InsSpec d2; d2.id = 4; d2.kon_ms = 2000; d2.koff_ms = 300; d2.drum_key = 45; d2.note_offset = -12; p.ins[62] = d2;
    // key 64 stays blank
    // keys 70..79: ten drum keys of ONE timbre with a short on-delay (below the 30 ms minimal life time of a drum note); not in any alphabet, used by the 'drumflood' start states only
    { pl::InsSpec d3; d3.id = 5; d3.kon_ms = 10; d3.koff_ms = 20; d3.drum_key = 50; for(int k = 70; k < 80; k++) p.ins[k] = d3; }
    for(auto *bk : {&m, &p}) for(auto &e : bk->ins) e.second.koff_ms = (uint16_t)std::min(65535, e.second.koff_ms * g_koff_scale);
    // a variation bank (MSB 1) with the same two programs: reached through CC0 in the configuration legs only
    pl::BankSpec m1 = m; m1.msb = 1;
    g_bank = pl::make_wopn({m, m1, p});
}

static bool is_blank_combo(int ch, int patch0, int key) {
    if(ch == 9) return key == 64;
    return patch0 == 2;
}

static void put_varlen(std::vector<uint8_t> &v, uint32_t x) {
    uint8_t b[5]; int n = 0; b[n++] = x & 0x7F; while((x >>= 7)) b[n++] = 0x80 | (x & 0x7F);
    while(n--) v.push_back(b[n]);
}
static void build_song() {
    // format 1, 2 tracks, division 96, tempo 500000 (1 tick = 5.208 ms)
    auto chunk = [](std::vector<uint8_t> &out, const char *id, const std::vector<uint8_t> &body) {
        out.insert(out.end(), id, id + 4); uint32_t n = (uint32_t)body.size();
        out.push_back(n >> 24); out.push_back(n >> 16); out.push_back(n >> 8); out.push_back(n); out.insert(out.end(), body.begin(), body.end()); };
    std::vector<uint8_t> hdr = {0, 1, 0, 2, 0, 96};
    std::vector<uint8_t> t0, t1;
    auto ev = [](std::vector<uint8_t> &t, uint32_t d, std::initializer_list<uint8_t> b) { put_varlen(t, d); t.insert(t.end(), b); };
    ev(t0, 0, {0xFF, 0x51, 3, 0x07, 0xA1, 0x20});
    ev(t0, 0, {0x90, 60, 100}); ev(t0, 4, {0xB0, 64, 127}); ev(t0, 4, {0x80, 60, 0}); ev(t0, 4, {0x90, 62, 90});
    ev(t0, 4, {0xB0, 64, 0}); ev(t0, 4, {0x80, 62, 0}); ev(t0, 0, {0xFF, 0x2F, 0});
    ev(t1, 2, {0x99, 60, 110}); ev(t1, 2, {0x89, 60, 0}); ev(t1, 6, {0x99, 62, 100}); ev(t1, 8, {0xB9, 123, 0}); ev(t1, 0, {0xFF, 0x2F, 0});
    g_song.clear(); const char mthd[] = "MThd";
    chunk(g_song, mthd, hdr); chunk(g_song, "MTrk", t0); chunk(g_song, "MTrk", t1);
}

// ---- C05 reference model --------------------------------------------------------------------
struct KeyState {
    bool down = false, sost = false, offPending = false, drum = false;
    double age = 0;            // seconds since the key-down instance was born
    bool heldP = false, heldS = false;
    bool either = false;       // don't-care window open (percussion note ended inside its first 30 ms)
    double either_age = 0;     // age of the instance the window belongs to
};
struct RefModel {
    bool pedal[2] = {false, false};
    int patch[2] = {0, 0};
    KeyState ks[2][3];
    bool sounding(int c, int k) const { const KeyState &s = ks[c][k]; return s.down || s.heldP || s.heldS; }
    void release(int c, int k) {
        KeyState &s = ks[c][k]; if(!s.down) return;
        if(pedal[c]) s.heldP = true;
        if(s.sost) s.heldS = true;
        if(s.drum && s.age < 0.03) { s.either = true; s.either_age = s.age; }
        s.down = false; s.sost = false; s.offPending = false;
    }
    void end_held(int c, int k) { KeyState &s = ks[c][k]; s.heldP = s.heldS = false; }
    void ser(vu::Ser &o) const {
        for(int c = 0; c < 2; c++) { o.u8(pedal[c]); o.u8((uint8_t)patch[c]);
            for(int k = 0; k < 3; k++) { const KeyState &s = ks[c][k]; o.u8(s.down); o.u8(s.sost); o.u8(s.offPending); o.u8(s.drum); o.f64(s.down || s.either ? s.age : 0); o.u8(s.heldP); o.u8(s.heldS); o.u8(s.either); o.f64(s.either ? s.either_age : 0); } }
    }
};

struct Inst {
    pl::Instance in;
    RefModel ref;
    double sim_s = 0;          // simulated time (C06 horizon)
    bool song_loaded = false;
};

static int chidx(int ch) { return ch == 9 ? 1 : 0; }
static int keyidx(int key) { return key == 60 ? 0 : key == 62 ? 1 : key == 64 ? 2 : -1; }

struct Snapshot {   // C06: who sits where
    struct U { int ch, note; uint32_t sustained; };
    std::vector<std::vector<U>> users;
};
static Snapshot take_snapshot(Inst &I) {
    Snapshot s; OPNMIDIplay &p = *I.in.play();
    s.users.resize(p.m_chipChannels.size());
    for(size_t c = 0; c < p.m_chipChannels.size(); c++)
        for(OCh::users_iterator j = p.m_chipChannels[c].users.begin(); !j.is_end(); ++j) {
            // "sustained" as the statement means it: released, and only a pedal keeps the note. A key that is still down while the sostenuto pedal is pressed carries the sostenuto mark
            // already (it decides what happens at its release), but it is a key-down note: the MIDI channel still lists it and it lists this chip channel.
            auto k = p.m_midiChannels[j->value.loc.MidCh].find_activenote(j->value.loc.note);
            bool keydown = !k.is_end() && k->value.phys_find((unsigned)c) != nullptr;
            s.users[c].push_back({(int)j->value.loc.MidCh, (int)j->value.loc.note, keydown ? 0u : (uint32_t)j->value.sustained}); }
    return s;
}

struct RtModel : mcx::Model {
    std::vector<Op> ops;
    std::vector<std::string> starts;
    bool with_config = false, with_seq = false;
    int alloc_start = -1; bool arp_start = false;

    void add(K k, int ch, int a, int b, double ms, const std::string &name, const std::string &kind, bool config = false) { Op o; o.k = k; o.ch = ch; o.a = a; o.b = b; o.ms = ms; o.name = name; o.kind = kind; o.config = config; ops.push_back(o); }

    void build_alphabet() {
        char nb[96];
        for(int c = 0; c < 2; c++) for(int k = 0; k < 3; k++) { snprintf(nb, sizeof nb, "noteOn(%d,%d,100)", CHS[c], KEYS3[k]); add(NOTEON, CHS[c], KEYS3[k], 100, 0, nb, "noteOn"); }
        add(NOTEON, 0, 60, 0, 0, "noteOn(0,60,0)", "noteOn-vel0"); add(NOTEON, 9, 60, 0, 0, "noteOn(9,60,0)", "noteOn-vel0");
        for(int c = 0; c < 2; c++) for(int k = 0; k < 3; k++) { snprintf(nb, sizeof nb, "noteOff(%d,%d)", CHS[c], KEYS3[k]); add(NOTEOFF, CHS[c], KEYS3[k], 0, 0, nb, "noteOff"); }
        for(int c = 0; c < 2; c++) {
            snprintf(nb, sizeof nb, "cc(%d,64,127)", CHS[c]); add(CC, CHS[c], 64, 127, 0, nb, "CC64-on");
            snprintf(nb, sizeof nb, "cc(%d,64,0)", CHS[c]); add(CC, CHS[c], 64, 0, 0, nb, "CC64-off");
            snprintf(nb, sizeof nb, "cc(%d,66,127)", CHS[c]); add(CC, CHS[c], 66, 127, 0, nb, "CC66-on");
            snprintf(nb, sizeof nb, "cc(%d,66,0)", CHS[c]); add(CC, CHS[c], 66, 0, 0, nb, "CC66-off");
            snprintf(nb, sizeof nb, "cc(%d,123,0)", CHS[c]); add(CC, CHS[c], 123, 0, 0, nb, "CC123");
            snprintf(nb, sizeof nb, "cc(%d,120,0)", CHS[c]); add(CC, CHS[c], 120, 0, 0, nb, "CC120");
            snprintf(nb, sizeof nb, "cc(%d,121,0)", CHS[c]); add(CC, CHS[c], 121, 0, 0, nb, "CC121");
        }
        add(PANIC, 0, 0, 0, 0, "panic()", "panic");
        add(RESETSTATE, 0, 0, 0, 0, "rt_resetState()", "resetState");
        for(int pp = 0; pp < 3; pp++) { snprintf(nb, sizeof nb, "patch(0,%d)", pp); add(PATCH, 0, pp, 0, 0, nb, "patch"); }
        if(g_prop == "C06") {
            add(GEN, 0, 0, 0, 30, "generate(30ms)", "time"); add(GEN, 0, 0, 0, 5000, "generate(5s)", "time"); add(GEN, 0, 0, 0, 120000, "generate(120s)", "time");
        } else {
            add(GEN, 0, 0, 0, 12, "generate(12ms)", "time"); add(GEN, 0, 0, 0, 40, "generate(40ms)", "time");
            // C04's invariants do not depend on which side of the 30 ms drum life time a tick falls, so the step that lands on it exactly (1323 frames at 44100 Hz) belongs to its alphabet (C05 keeps away from the equality: the statement does not fix it)
            if(g_prop == "C04") add(GEN, 0, 0, 0, 30, "generate(30ms)", "time");
        }
        if(g_prop == "C04" || g_prop == "C03") {   // (C03: same real-time alphabet, oracle = memory safety and termination only)
            add(BEND, 0, 12000, 0, 0, "bend(0,12000)", "bend"); add(BEND, 0, 8192, 0, 0, "bend(0,8192)", "bend");
            add(CC, 0, 5, 40, 0, "cc(0,5,40)", "CC5"); add(CC, 0, 65, 127, 0, "cc(0,65,127)", "CC65-on"); add(CC, 0, 65, 0, 0, "cc(0,65,0)", "CC65-off");
            add(CC, 0, 1, 64, 0, "cc(0,1,64)", "CC1");
            add(ARP, 0, 0, 0, 0, "setAutoArpeggio(0)", "arpeggio"); add(ARP, 0, 1, 0, 0, "setAutoArpeggio(1)", "arpeggio");
            for(int m = -1; m <= 2; m++) { snprintf(nb, sizeof nb, "setChannelAllocMode(%d)", m); add(ALLOC, 0, m, 0, 0, nb, "allocMode"); }
        }
        if(extra_fullchip) {   // the keys the "busy6same" start states hold, so that they can be released; a third note of the full chip's timbre
            add(NOTEOFF, 0, 40, 0, 0, "noteOff(0,40)", "noteOff"); add(NOTEOFF, 0, 41, 0, 0, "noteOff(0,41)", "noteOff"); add(NOTEON, 0, 41, 100, 0, "noteOn(0,41,100)", "noteOn");
        }
        if(g_prop == "C03") { add(GEN, 0, 0, 0, 700, "generate(700ms)", "time"); add(GEN, 0, 0, 0, 5000, "generate(5s)", "time"); }
        if(with_config) {
            add(RELOADBANK, 0, 0, 0, 0, "openBankData(same)", "bankReload", true);
            add(NUMCHIPS, 0, 1, 0, 0, "setNumChips(1)", "setNumChips", true); add(NUMCHIPS, 0, 2, 0, 0, "setNumChips(2)", "setNumChips", true);
            add(SWITCHEMU, 0, OPNMIDI_EMU_GENS, 0, 0, "switchEmulator(GENS)", "switchEmulator", true);
            add(CHIPTYPE, 0, 1, 0, 0, "setChipType(1)", "setChipType", true);
            add(RESET, 0, 0, 0, 0, "reset()", "reset", true);
            add(REMOVEBANK, 0, 0, 0, 0, "removeBank(melodic0)", "removeBank", true);
            add(REMOVEBANK, 0, 1, 0, 0, "removeBank(melodic MSB1)", "removeBank", true);
            add(CC, 0, 0, 1, 0, "cc(0,0,1)", "bankSelect", true); add(CC, 0, 0, 0, 0, "cc(0,0,0)", "bankSelect", true);   // variation bank selected / deselected on MIDI channel 0
            // music files offered to a handle that is playing: a song the loader accepts, and one that the sequencer rejects half-way (last event truncated)
            add(LOADSONG, 0, 0, 0, 0, "openData(song)", "songLoad", true); add(LOADSONG, 0, 1, 0, 0, "openData(truncated song: rejected)", "songLoadRejected", true);
        }
        if(with_seq) {
            add(TICKSEQ, 0, 0, 0, 11, "tickEvents(11ms)", "seqTick", true);
            add(TICKSEQ, 0, 0, 0, 43, "tickEvents(43ms)", "seqTick", true);
            if(g_prop == "C04") add(TICKSEQ, 0, 0, 0, 30, "tickEvents(30ms)", "seqTick", true);
        }
        if(!only_ops.empty()) {   // focused alphabet: fewer operations, deeper histories
            std::regex re(only_ops); std::vector<Op> keep; for(auto &o : ops) if(std::regex_search(o.name, re)) keep.push_back(o); ops.swap(keep);
            fprintf(stderr, "[rt_voice] focused alphabet (%zu ops):", ops.size()); for(auto &o : ops) fprintf(stderr, " %s", o.name.c_str()); fprintf(stderr, "\n");
        }
    }
    std::string only_ops; bool extra_fullchip = false;

    size_t num_ops() const override { return ops.size(); }
    std::string op_name(size_t i) const override { return ops[i].name; }
    size_t num_starts() const override { return starts.size(); }
    std::string start_name(size_t s) const override { return starts[s]; }
    int config_depth = 1000;
    bool op_in_depth(size_t op, int depth) const override { return !ops[op].config || depth <= config_depth; }

    enum { T_NOTE_PLACED, T_NOTE_REJECTED, T_CHIP_FULL, T_EVICTION, T_ARPEGGIO_SHARED, T_PEDAL_HELD, T_SOST_HELD, T_TTL_DEFERRED, T_BLANK, T_GLIDE, T_SEQ_EVENT, T_PRUNED_POLY, T_NT };
    size_t num_tags() const override { return T_NT; }
    std::string tag_name(size_t t) const override {
        static const char *n[] = {"noteon_placed", "noteon_rejected", "noteon_with_all_channels_busy", "noteon_without_net_user_gain", "channel_shared_by_arpeggio", "pedal_held_user_present", "sostenuto_held_user_present", "drum_keyoff_deferred", "blank_note_marker", "gliding_note", "sequencer_delivered_event", "unused"};
        return n[t];
    }

    void *fresh(size_t start) override {
        Inst *I = new Inst;
        I->in.create(44100);
        OPN2_MIDIPlayer *d = I->in.dev;
        opn2_setNumChips(d, g_chips);
        pl::must(opn2_openBankData(d, g_bank.data(), (long)g_bank.size()), "opn2_openBankData(generated bank)", d);
        const std::string &sn = starts[start];
        if(sn.find("alloc=") != std::string::npos) { int m = atoi(sn.c_str() + sn.find("alloc=") + 6); opn2_setChannelAllocMode(d, m); }
        if(sn.find("arp=1") != std::string::npos) opn2_setAutoArpeggio(d, 1);
        if(sn.find("chips=") != std::string::npos) { int n = atoi(sn.c_str() + sn.find("chips=") + 6); opn2_setNumChips(d, n); }
        if(sn.find("song") != std::string::npos) { pl::must(opn2_openData(d, g_song.data(), (unsigned long)g_song.size()), "opn2_openData(start-state song)", d); I->song_loaded = true; }
        if(sn.find("nearfull") != std::string::npos) {
            // deterministic prefix: fill all but one chip channel with key-down and pedal-held notes of mixed ages
            size_t nch = I->in.play()->m_chipChannels.size();
            opn2_rt_patchChange(d, 1, 1);
            opn2_rt_controllerChange(d, 2, 64, 127);
            int key = 30;
            for(size_t c = 0; c + 1 < nch; c++) {
                int ch = (c % 3 == 2) ? 2 : 1;
                opn2_rt_noteOn(d, (OPN2_UInt8)ch, (OPN2_UInt8)key, 90);
                if(ch == 2 && (c % 2)) opn2_rt_noteOff(d, 2, (OPN2_UInt8)key);   // becomes pedal-held
                key++;
                if(c % 4 == 1) I->in.generate_ms(25);
            }
        }
        if(sn.find("sharedheld") != std::string::npos) {
            // every chip channel busy; one of them shared by a key-down note and a later note of the same timbre that was released under the pedal (list order: key-down, held),
            // another one carrying a single released, pedal-held note that was struck later
            size_t nch = I->in.play()->m_chipChannels.size();
            for(size_t c = 0; c + 1 < nch; c++) opn2_rt_noteOn(d, 2, (OPN2_UInt8)(30 + c), 90);
            opn2_rt_noteOn(d, 1, 40, 90);                                   // the last free channel
            opn2_rt_noteOn(d, 2, 50, 90);                                   // same timbre, same instant: shares a channel
            opn2_rt_controllerChange(d, 2, 64, 127); opn2_rt_noteOff(d, 2, 50);
            opn2_rt_noteOff(d, 1, 40); I->in.generate_ms(25);
            opn2_rt_controllerChange(d, 1, 64, 127); opn2_rt_noteOn(d, 1, 41, 90); opn2_rt_noteOff(d, 1, 41);
            I->in.generate_ms(100);
            bool shared = false, single = false; OPNMIDIplay &pp = *I->in.play();
            for(size_t c = 0; c < nch; c++) { size_t n = 0, held = 0; for(OCh::users_iterator j = pp.m_chipChannels[c].users.begin(); !j.is_end(); ++j) { n++; if(j->value.sustained) held++; } if(n == 2 && held == 1) shared = true; if(n == 1 && held == 1) single = true; }
            if(!shared || !single) { fprintf(stderr, "start state 'sharedheld' was not formed (shared channel %d, single held channel %d)\n", (int)shared, (int)single); abort(); }
        }
        if(sn.find("flood") != std::string::npos) {
            // every chip channel's user list filled to its fixed capacity: 127 keys on each melodic MIDI channel from 1 up (one timbre; with auto-arpeggio they pile up as users of the same chip channels)
            for(int ch = 1; ch <= 15; ch++) if(ch != 9) for(int k = 0; k < 127; k++) opn2_rt_noteOn(d, (OPN2_UInt8)ch, (OPN2_UInt8)k, 100);
            size_t most = 0; OPNMIDIplay &pp = *I->in.play(); for(size_t c = 0; c < pp.m_chipChannels.size(); c++) most = std::max(most, (size_t)pp.m_chipChannels[c].users.size());
            if(sn.find("arp=1") != std::string::npos && most < 128) { fprintf(stderr, "start state 'flood' was not formed (longest user list %zu)\n", most); abort(); }
        }
        if(sn.find("drumflood") != std::string::npos) {
            // more drum notes of one timbre than chip channels, all inside their 30 ms minimal life time: with auto-arpeggio they share chip channels and take turns
            for(int k = 70; k < 80; k++) opn2_rt_noteOn(d, 9, (OPN2_UInt8)k, 100);
            // (no time passes here: a start state is built outside the per-call CPU budget, time is left to the alphabet's generate steps)
        }
        if(sn.find("busy6same") != std::string::npos) {
            // six key-down notes of one timbre on MIDI channel 0: one chip is full, a 7th note of another timbre must evict or (with arpeggio) evacuate
            if(sn.find("pedal") != std::string::npos) opn2_rt_controllerChange(d, 0, 64, 127);
            for(int k = 40; k < 46; k++) opn2_rt_noteOn(d, 0, (OPN2_UInt8)k, 100);
            if(sn.find("seventh") != std::string::npos) { opn2_rt_noteOn(d, 0, 60, 100); opn2_rt_noteOff(d, 0, 60); }
        }
        if(sn.find("busy5") != std::string::npos) {
            opn2_rt_controllerChange(d, 1, 64, 127);
            for(int k = 40; k < 45; k++) opn2_rt_noteOn(d, 1, (OPN2_UInt8)k, 100);
            opn2_rt_noteOff(d, 1, 41); opn2_rt_noteOff(d, 1, 43);
        }
        I->in.tap.log.clear();
        return I;
    }
    void destroy(void *p) override { delete (Inst *)p; }

    // ---- preconditions ---------------------------------------------------------------------
    bool enabled(void *p, size_t opi) override {
        Inst &I = *(Inst *)p; const Op &o = ops[opi];
        OPNMIDIplay &pl_ = *I.in.play();
        if(g_prop == "C05") {
            if(o.k == NOTEON && o.b > 0) {
                // polyphony precondition: the new note must leave at least one chip channel free
                size_t busy = 0; for(auto &c : pl_.m_chipChannels) if(!c.users.empty()) busy++;
                if(busy + 2 > pl_.m_chipChannels.size()) return false;
            }
            if(o.k == RESETSTATE) { for(int c = 0; c < 2; c++) for(int k = 0; k < 3; k++) if(I.ref.ks[c][k].down) return false; }   // statement only speaks about held notes
            if(o.k == CC && (o.a == 64 || o.a == 66)) { int c = chidx(o.ch); for(int k = 0; k < 3; k++) if(I.ref.ks[c][k].down && I.ref.ks[c][k].offPending) return false; }
        }
        if(g_prop == "C06") {
            if(o.k == GEN && I.sim_s + o.ms / 1000.0 > 600.0) return false;   // 10 simulated minutes
        }
        if(o.k == TICKSEQ && !I.song_loaded) return false;
        return true;
    }

    // ---- C04 invariants ------------------------------------------------------------------------
    void check_c04(Inst &I, mcx::Verdict &v, const std::string &opk) {
        OPNMIDIplay &p = *I.in.play(); OPN2 &y = *p.m_synth;
        size_t nch = p.m_chipChannels.size();
        char b[256];
        if(nch != y.m_numChannels) { snprintf(b, sizeof b, "m_chipChannels.size()=%zu but synth has %u channels", nch, y.m_numChannels); v.fail("C04/I1/" + opk + "/channel-table-size", b); return; }
        for(size_t mc = 0; mc < p.m_midiChannels.size(); mc++) {
            MCh &ch = p.m_midiChannels[mc];
            std::set<int> seen; size_t walked = 0; unsigned glide = 0, ext = 0;
            for(MCh::notes_iterator i = ch.activenotes.begin(); !i.is_end(); ++i) {
                MCh::NoteInfo &n = i->value; walked++;
                if(walked > 200) { v.fail("C04/I3/" + opk + "/note-list-cycle", "activenotes walk exceeds 200 cells"); return; }
                if(!seen.insert(n.note).second) { snprintf(b, sizeof b, "MIDI channel %zu lists note %u twice", mc, n.note); v.fail("C04/I3/" + opk + "/duplicate-note", b); return; }
                if(n.isBlank) continue;
                if(n.glideRate != HUGE_VAL) glide++;
                if(n.ttl > 0) ext++;
                if(n.chip_channels_count > 2) { v.fail("C04/I1/" + opk + "/phys-count", "chip_channels_count > 2"); return; }
                for(unsigned k = 0; k < n.chip_channels_count; k++) {
                    unsigned c = n.chip_channels[k].chip_chan;
                    if(c >= nch) { snprintf(b, sizeof b, "note %zu/%u references chip channel %u of %zu", mc, n.note, c, nch); v.fail("C04/I1/" + opk + "/chip-channel-out-of-range", b); return; }
                    OCh::Location loc; loc.MidCh = (uint16_t)mc; loc.note = n.note;
                    if(p.m_chipChannels[c].find_user(loc).is_end()) {
                        snprintf(b, sizeof b, "note (ch %zu, key %u) still references chip channel %u but that channel does not list it as a user", mc, n.note, c);
                        v.fail("C04/I1/" + opk + "/note-without-user", b); return; }
                }
                int64_t bank; int idx; pl::canon_ains(y, n.ains, bank, idx);
                if(bank < 0) { snprintf(b, sizeof b, "note (ch %zu, key %u) instrument pointer is %s", mc, n.note, bank == -1 ? "NULL" : bank == -2 ? "the static empty instrument" : "outside every loaded bank (dangling)");
                    v.fail("C04/I5/" + opk + (bank == -3 ? "/dangling-instrument" : "/no-instrument"), b); return; }
            }
            if(walked != ch.activenotes.size()) { snprintf(b, sizeof b, "activenotes.size()=%zu walked=%zu", ch.activenotes.size(), walked); v.fail("C04/I3/" + opk + "/note-list-size", b); return; }
            if(glide != ch.gliding_note_count) { snprintf(b, sizeof b, "MIDI channel %zu gliding_note_count=%u recount=%u", mc, ch.gliding_note_count, glide); v.fail("C04/I4/" + opk + "/gliding-counter", b); return; }
            if(ext != ch.extended_note_count) { snprintf(b, sizeof b, "MIDI channel %zu extended_note_count=%u recount=%u", mc, ch.extended_note_count, ext); v.fail("C04/I4/" + opk + "/extended-counter", b); return; }
        }
        for(size_t c = 0; c < nch; c++) {
            OCh &oc = p.m_chipChannels[c];
            size_t walked = 0; std::set<std::pair<int, int>> seen;
            for(OCh::users_iterator j = oc.users.begin(); !j.is_end(); ++j) {
                OCh::LocationData &d = j->value; walked++;
                if(walked > 200) { v.fail("C04/I3/" + opk + "/user-list-cycle", "users walk exceeds 200 cells"); return; }
                if(!seen.insert(std::make_pair((int)d.loc.MidCh, (int)d.loc.note)).second) { snprintf(b, sizeof b, "chip channel %zu lists user (%u,%u) twice", c, d.loc.MidCh, d.loc.note); v.fail("C04/I3/" + opk + "/duplicate-user", b); return; }
                if(d.sustained == OCh::LocationData::Sustain_None) {
                    bool ok = false;
                    if(d.loc.MidCh < p.m_midiChannels.size()) {
                        MCh::notes_iterator i = p.m_midiChannels[d.loc.MidCh].find_activenote(d.loc.note);
                        if(!i.is_end() && !i->value.isBlank && i->value.phys_find((unsigned)c)) ok = true;
                    }
                    if(!ok) { snprintf(b, sizeof b, "chip channel %zu has non-sustained user (ch %u, key %u) but no sounding note of that MIDI channel references the channel", c, d.loc.MidCh, d.loc.note);
                        v.fail("C04/I2/" + opk + "/user-without-note", b); return; }
                }
            }
            if(walked != oc.users.size()) { v.fail("C04/I3/" + opk + "/user-list-size", "users.size() differs from walked length"); return; }
            bool kon = I.in.tap.keyed_on(c);
            if(kon != !oc.users.empty()) {
                snprintf(b, sizeof b, "chip channel %zu: last 0x28 write keyed it %s but it has %zu user(s)", c, kon ? "ON" : "OFF", oc.users.size());
                v.fail("C04/I6/" + opk + (kon ? "/keyed-on-without-user" : "/user-on-keyed-off-channel"), b); return; }
        }
    }

    // ---- C05 ---------------------------------------------------------------------------------
    void ref_time(Inst &I, double s) {
        for(int c = 0; c < 2; c++) for(int k = 0; k < 3; k++) {
            KeyState &x = I.ref.ks[c][k];
            if(x.down) { x.age += s; if(x.offPending && x.age >= 0.03) I.ref.release(c, k); }
            if(x.either) { x.either_age += s; if(x.either_age >= 0.03) x.either = false; }
        }
    }
    void ref_apply(Inst &I, const Op &o) {
        RefModel &R = I.ref;
        switch(o.k) {
        case NOTEON: { int c = chidx(o.ch), k = keyidx(o.a);
            if(o.b > 0) {
                if(R.ks[c][k].down) { bool young = R.ks[c][k].drum && R.ks[c][k].age < 0.03; R.release(c, k); (void)young; R.ks[c][k].either = false; }
                if(!is_blank_combo(o.ch, R.patch[c], o.a)) { KeyState &s = R.ks[c][k]; s.down = true; s.sost = false; s.offPending = false; s.drum = (o.ch == 9); s.age = 0; s.either = false; }
            } else {
                KeyState &s = R.ks[c][k];
                if(s.down) { if(s.drum && s.age < 0.03) s.offPending = true; else R.release(c, k); }
            }
            break; }
        case NOTEOFF: { int c = chidx(o.ch), k = keyidx(o.a); KeyState &s = R.ks[c][k];
            if(s.down) { if(s.drum && s.age < 0.03) s.offPending = true; else R.release(c, k); }
            break; }
        case CC: { int c = chidx(o.ch);
            if(o.a == 64) { R.pedal[c] = o.b >= 64; if(!R.pedal[c]) for(int k = 0; k < 3; k++) R.ks[c][k].heldP = false; }
            else if(o.a == 66) { if(o.b >= 64) { for(int k = 0; k < 3; k++) if(R.ks[c][k].down) R.ks[c][k].sost = true; } else { for(int k = 0; k < 3; k++) { R.ks[c][k].heldS = false; R.ks[c][k].sost = false; } } }
            else if(o.a == 123 || o.a == 120) { for(int k = 0; k < 3; k++) R.release(c, k); }
            else if(o.a == 121) { R.pedal[c] = false; for(int k = 0; k < 3; k++) { R.end_held(c, k); R.ks[c][k].sost = false; } }
            break; }
        case PANIC: for(int c = 0; c < 2; c++) for(int k = 0; k < 3; k++) { KeyState &s = R.ks[c][k]; if(s.down && s.drum && s.age < 0.03) { s.either = true; s.either_age = s.age; } s.down = false; s.sost = false; s.offPending = false; s.heldP = s.heldS = false; } break;
        case RESETSTATE: for(int c = 0; c < 2; c++) { R.pedal[c] = false; for(int k = 0; k < 3; k++) { R.end_held(c, k); R.ks[c][k].sost = false; } } break;
        case PATCH: R.patch[chidx(o.ch)] = o.a; break;
        default: break;
        }
    }
    void check_c05(Inst &I, mcx::Verdict &v, const std::string &opk) {
        OPNMIDIplay &p = *I.in.play();
        bool obs[2][3] = {{false, false, false}, {false, false, false}};
        char b[300];
        for(size_t c = 0; c < p.m_chipChannels.size(); c++) {
            if(!I.in.tap.keyed_on(c)) continue;
            OCh &oc = p.m_chipChannels[c];
            if(oc.users.empty()) {
                bool any = false; for(int cc = 0; cc < 2; cc++) for(int k = 0; k < 3; k++) if(I.ref.sounding(cc, k) || I.ref.ks[cc][k].either) any = true;
                snprintf(b, sizeof b, "chip channel %zu is keyed on at the chip but no (channel,key) owns it%s", c, any ? "" : " and every key and pedal is released (stuck note)");
                v.fail("C05/stuck/" + opk + "/keyed-on-without-owner", b); return; }
            for(OCh::users_iterator j = oc.users.begin(); !j.is_end(); ++j) {
                int cc = j->value.loc.MidCh == 9 ? 1 : j->value.loc.MidCh == 0 ? 0 : -1; int k = keyidx(j->value.loc.note);
                if(cc < 0 || k < 0) { v.fail("C05/foreign-owner/" + opk, "keyed-on channel owned by a pair outside the alphabet"); return; }
                obs[cc][k] = true;
            }
        }
        for(int c = 0; c < 2; c++) for(int k = 0; k < 3; k++) {
            const KeyState &s = I.ref.ks[c][k];
            bool exp = I.ref.sounding(c, k);
            if(s.either && !exp) continue;                      // don't-care window (i)
            if(s.down && s.offPending) continue;                // deferred drum release pending: sounding either way is allowed, checked at expiry
            if(obs[c][k] != exp) {
                snprintf(b, sizeof b, "(channel %d, key %d): %s at the chip, MIDI rules say %s [key %s, pedal %s, pedal-held %d, sostenuto-held %d, sostenuto-marked %d]",
                         CHS[c], KEYS3[k], obs[c][k] ? "sounding" : "silent", exp ? "sounding" : "silent", s.down ? "down" : "up", I.ref.pedal[c] ? "down" : "up", s.heldP, s.heldS, s.sost);
                std::string cause = exp ? (s.down ? "key-down-note-cut" : (s.heldS ? "sostenuto-held-note-cut" : "pedal-held-note-cut")) : "note-not-ended";
                v.fail("C05/set/" + opk + "/" + cause, b); return; }
        }
    }

    // ---- C06 ---------------------------------------------------------------------------------
    void check_c06(Inst &I, const Op &o, const Snapshot &pre, int ret, mcx::Verdict &v) {
        OPNMIDIplay &p = *I.in.play();
        int c0 = chidx(o.ch); (void)c0;
        bool blank = false;
        { MCh &mc = p.m_midiChannels[o.ch]; blank = is_blank_combo(o.ch, mc.patch, o.a); }
        if(blank || o.b == 0) return;
        size_t nch = pre.users.size();
        std::vector<size_t> idle; for(size_t c = 0; c < nch; c++) if(pre.users[c].empty()) idle.push_back(c);
        char b[300];
        // where did the new note go?
        MCh::notes_iterator ni = p.m_midiChannels[o.ch].find_activenote((unsigned)o.a);
        int placed = -1;
        if(!ni.is_end() && !ni->value.isBlank && ni->value.chip_channels_count > 0) placed = ni->value.chip_channels[0].chip_chan;
        // the key-down instance of the same key that the note-on re-triggers is the one permitted casualty
        auto is_retrigger = [&](const Snapshot::U &u) { return u.ch == o.ch && u.note == o.a && u.sustained == 0; };
        if(!idle.empty()) {
            if(ret != 1 || placed < 0) { snprintf(b, sizeof b, "note-on (ch %d key %d) rejected although %zu chip channel(s) had no user", o.ch, o.a, idle.size()); v.fail("C06/idle/rejected", b); return; }
            bool was_idle = pre.users[(size_t)placed].empty();
            bool freed_by_retrigger = pre.users[(size_t)placed].size() == 1 && is_retrigger(pre.users[(size_t)placed][0]);
            if(!was_idle && !freed_by_retrigger) {
                snprintf(b, sizeof b, "note-on (ch %d key %d) placed on chip channel %d which had %zu user(s) while channel %zu was idle", o.ch, o.a, placed, pre.users[(size_t)placed].size(), idle[0]);
                v.fail("C06/idle/placed-on-busy-channel", b); return; }
            for(size_t c = 0; c < nch; c++) for(auto &u : pre.users[c]) {
                if(is_retrigger(u)) continue;
                OCh::Location loc; loc.MidCh = (uint16_t)u.ch; loc.note = (uint8_t)u.note;
                if(p.m_chipChannels[c].find_user(loc).is_end()) {
                    snprintf(b, sizeof b, "note-on (ch %d key %d) displaced user (ch %d key %d, %s) from chip channel %zu although channel %zu was idle", o.ch, o.a, u.ch, u.note, u.sustained ? "pedal/sostenuto-held" : "key down", c, idle[0]);
                    v.fail(std::string("C06/idle/displaced-") + (u.sustained ? "held-note" : "keydown-note"), b); return; }
            }
        } else {
            // all busy: a channel holding exactly one held (released) user goes before any key-down channel
            bool have_single_held = false; for(size_t c = 0; c < nch; c++) if(pre.users[c].size() == 1 && pre.users[c][0].sustained != 0) have_single_held = true;
            if(have_single_held && placed >= 0) {
                bool keydown_there = false; for(auto &u : pre.users[(size_t)placed]) if(u.sustained == 0 && !is_retrigger(u)) keydown_there = true;
                if(keydown_there) { snprintf(b, sizeof b, "all channels busy: note-on (ch %d key %d) took chip channel %d occupied by a key-down note although another channel held only a pedal-held note", o.ch, o.a, placed);
                    v.fail("C06/busy/keydown-evicted-before-held", b); return; }
            }
        }
    }

    // ---- transition ------------------------------------------------------------------------------
    void apply(void *p, size_t opi, mcx::Verdict &v, uint64_t &tags) override {
        Inst &I = *(Inst *)p; const Op &o = ops[opi];
        OPN2_MIDIPlayer *d = I.in.dev;
        OPNMIDIplay &pp = *I.in.play();
        I.in.tap.log.clear();
        Snapshot pre; bool all_busy = false;
        if(o.k == NOTEON) { pre = take_snapshot(I); all_busy = true; for(auto &u : pre.users) if(u.empty()) all_busy = false; }
        int ret = 0;
        switch(o.k) {
        case NOTEON: ret = opn2_rt_noteOn(d, (OPN2_UInt8)o.ch, (OPN2_UInt8)o.a, (OPN2_UInt8)o.b); break;
        case NOTEOFF: opn2_rt_noteOff(d, (OPN2_UInt8)o.ch, (OPN2_UInt8)o.a); break;
        case CC: opn2_rt_controllerChange(d, (OPN2_UInt8)o.ch, (OPN2_UInt8)o.a, (OPN2_UInt8)o.b); break;
        case PANIC: opn2_panic(d); break;
        case RESETSTATE: opn2_rt_resetState(d); break;
        case PATCH: opn2_rt_patchChange(d, (OPN2_UInt8)o.ch, (OPN2_UInt8)o.a); break;
        case BEND: opn2_rt_pitchBend(d, (OPN2_UInt8)o.ch, (OPN2_UInt16)o.a); break;
        case GEN: { I.in.generate_ms(o.ms); double s = (double)llround(o.ms * 44100 / 1000.0) / 44100.0; I.sim_s += s; if(g_prop == "C05") ref_time(I, s); break; }
        case ARP: opn2_setAutoArpeggio(d, o.a); break;
        case ALLOC: opn2_setChannelAllocMode(d, o.a); break;
        case RELOADBANK: opn2_openBankData(d, g_bank.data(), (long)g_bank.size()); break;
        case NUMCHIPS: opn2_setNumChips(d, o.a); break;
        case SWITCHEMU: opn2_switchEmulator(d, o.a); break;
        case CHIPTYPE: opn2_setChipType(d, o.a); break;
        case RESET: opn2_reset(d); break;
        case REMOVEBANK: { OPN2_BankId id = {0, (OPN2_UInt8)o.a, 0}; OPN2_Bank b; if(opn2_getBank(d, &id, 0, &b) == 0) opn2_removeBank(d, &b); break; }
        case LOADSONG: { unsigned long n = (unsigned long)g_song.size() - (o.a ? 2 : 0); int rc = opn2_openData(d, g_song.data(), n); if(rc == 0) I.song_loaded = true; else if(!o.a) { v.fail(g_prop + "/harness", std::string("the valid song was rejected: ") + opn2_errorInfo(d)); return; } break; }
        case TICKSEQ: { uint64_t w0 = I.in.tap.nwrites; opn2_tickEvents(d, o.ms / 1000.0, 0.0001); if(I.in.tap.nwrites != w0) tags |= 1ull << T_SEQ_EVENT; break; }
        }
        // outcome tags
        if(o.k == NOTEON && o.b > 0) {
            tags |= 1ull << (ret ? T_NOTE_PLACED : T_NOTE_REJECTED);
            if(all_busy) tags |= 1ull << T_CHIP_FULL;
            if(ret) { size_t before = 0, after = 0; for(auto &u : pre.users) before += u.size(); for(auto &c : pp.m_chipChannels) after += c.users.size(); if(after <= before && !(after == before && false)) tags |= 1ull << T_EVICTION; }
        }
        for(auto &c : pp.m_chipChannels) {
            if(c.users.size() > 1) tags |= 1ull << T_ARPEGGIO_SHARED;
            for(OCh::users_iterator j = c.users.begin(); !j.is_end(); ++j) { if(j->value.sustained & 1) tags |= 1ull << T_PEDAL_HELD; if(j->value.sustained & 2) tags |= 1ull << T_SOST_HELD; }
        }
        for(auto &mc : pp.m_midiChannels) for(MCh::notes_iterator i = mc.activenotes.begin(); !i.is_end(); ++i) {
            if(i->value.isBlank) tags |= 1ull << T_BLANK; else { if(i->value.isOnExtendedLifeTime) tags |= 1ull << T_TTL_DEFERRED; if(i->value.glideRate != HUGE_VAL) tags |= 1ull << T_GLIDE; }
        }
        if(I.in.tap.bad_chip_index) { v.fail("tap/chip-index-out-of-range/" + o.kind, "register write addressed a chip index beyond the created chips"); return; }
        if(g_prop == "C04") check_c04(I, v, o.kind);
        else if(g_prop == "C05") { ref_apply(I, o); check_c05(I, v, o.kind); }
        else if(g_prop == "C06") { if(o.k == NOTEON) check_c06(I, o, pre, ret, v); }
    }

    void key(void *p, vu::Ser &s) override {
        Inst &I = *(Inst *)p;
        pl::SerOpts o; pl::ser_player(I.in, s, o);
        if(g_prop == "C05") I.ref.ser(s);
        if(g_prop == "C06") s.f64(I.sim_s);
        if(with_seq && I.song_loaded) { s.f64(opn2_positionTell(I.in.dev)); s.u8((uint8_t)opn2_atEnd(I.in.dev)); }
    }
    double budget_s(size_t op) const override { return ops[op].k == GEN && ops[op].ms > 1000 ? 20.0 : 5.0; }
};

} // namespace

int main(int argc, char **argv) {
    mcx::Args a = mcx::parse_args(argc, argv);
    if(a.extra.count("prop")) g_prop = a.extra["prop"];
    if(a.extra.count("chips")) g_chips = atoi(a.extra["chips"].c_str());
    if(a.extra.count("koff-scale")) g_koff_scale = atoi(a.extra["koff-scale"].c_str());
    pl::install_hooks(true);
    build_bank(); build_song();
    RtModel m;
    m.with_config = a.extra.count("config") && a.extra["config"] == "1";
    m.with_seq = a.extra.count("seq") && a.extra["seq"] == "1";
    if(a.extra.count("config-depth")) m.config_depth = atoi(a.extra["config-depth"].c_str());
    if(a.extra.count("only-ops")) m.only_ops = a.extra["only-ops"];
    std::string st = a.extra.count("starts") ? a.extra["starts"] : "fresh";
    { std::string cur; for(char c : st + ",") { if(c == ',') { if(!cur.empty()) m.starts.push_back(cur); cur.clear(); } else cur.push_back(c); } }
    for(auto &x : m.starts) if(x.find("busy6same") != std::string::npos) m.extra_fullchip = true;
    m.build_alphabet();
    return mcx::run_main(argc, argv, m, g_prop.c_str(), 4, 6);
}
