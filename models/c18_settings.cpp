// C18 — settings are transactional: accepted values stick, rejected change nothing (E1, mcx).
#include "player.hpp"
#include "mcx_main.hpp"
#include "gen_music.hpp"
#include <climits>

namespace {

enum K { NUMCHIPS, EMU, PCMRATE, DEVID, LFOEN, LFOFREQ, CHIPTYPE, VOLMODEL, ALLOC, SCALEMOD, FRBRIGHT, SOFTPAN, ARP, LOOPEN, LOOPCNT, HOOKSONLY, TEMPO,
         HOOK_RAW, HOOK_NOTE, HOOK_DEBUG, HOOK_LS, HOOK_LE, RESET, BANK, MUSIC, TRACKOPT, CHANEN, SYSEX_DEV, GETBANK_BAD, PLAYPROBE, AUDIO };
struct Op { K k; long a; long b; std::string name; };

static std::vector<uint8_t> g_bankA, g_bankB, g_badbank, g_song, g_badsong, g_trunc, g_cmf, g_imf, g_rsxx;
static int g_hook_calls[5];
// every hook is registered with its own user-data pointer; a callback that arrives with another pointer is a registration that did not persist as it was made
static char g_hook_tag[5]; static int g_hook_wrong_ud = -1;
static void h_raw(void *u, OPN2_UInt8, OPN2_UInt8, OPN2_UInt8, const OPN2_UInt8 *, size_t) { g_hook_calls[0]++; if(u != &g_hook_tag[0]) g_hook_wrong_ud = 0; }
static void h_note(void *u, int, int, int, int, double) { g_hook_calls[1]++; if(u != &g_hook_tag[1]) g_hook_wrong_ud = 1; }
static void h_dbg(void *u, const char *, ...) { g_hook_calls[2]++; if(u != &g_hook_tag[2]) g_hook_wrong_ud = 2; }
static void h_ls(void *u) { g_hook_calls[3]++; if(u != &g_hook_tag[3]) g_hook_wrong_ud = 3; }
static void h_le(void *u) { g_hook_calls[4]++; if(u != &g_hook_tag[4]) g_hook_wrong_ud = 4; }

struct Ref {
    int numChips = 2; int emulator = 0; bool pcmrate = false; int devid = 0;
    int lfoEnUser = -1, lfoFreqUser = -1, chipTypeUser = -1, volModelUser = 0;   // -1/0 = bank default ; -100 = unknown after an out-of-range void set
    int bankLfoEn = 0, bankLfoFreq = 0, bankChip = 0;
    int alloc = -1; bool scalemod = false, frbright = false, softpan = false, arp = false;
    bool loopEn = false; int loopCnt = -1; int hooksOnly = 0; double tempo = 1.0;
    bool hook[5] = {false, false, false, false, false};
    bool bank_loaded = false; bool song = false; bool song_dc = false; int tracks = 0; bool rsxx = false;   // rsxx: the loaded song is an EA-MUS file (it forces 2 chips and the Generic volume model while it is loaded)
    std::vector<int> trackOff; bool chanOff[16] = {0}; long solo = -1;
    void ser(vu::Ser &s) const { s.raw(&numChips, sizeof numChips); s.u32((uint32_t)emulator); s.u8(pcmrate); s.u32((uint32_t)devid); s.u32((uint32_t)lfoEnUser); s.u32((uint32_t)lfoFreqUser); s.u32((uint32_t)chipTypeUser); s.u32((uint32_t)volModelUser);
        s.u32((uint32_t)bankLfoEn); s.u32((uint32_t)bankLfoFreq); s.u32((uint32_t)bankChip); s.u32((uint32_t)alloc); s.u8(scalemod); s.u8(frbright); s.u8(softpan); s.u8(arp); s.u8(loopEn); s.u32((uint32_t)loopCnt); s.u32((uint32_t)hooksOnly); s.f64(tempo);
        for(int i = 0; i < 5; i++) s.u8(hook[i]); s.u8(bank_loaded); s.u8(song); s.u8(song_dc); s.u8(rsxx); for(int x : trackOff) s.u8((uint8_t)x); for(int i = 0; i < 16; i++) s.u8(chanOff[i]); s.i64(solo); }
};
struct Inst { pl::Instance in; Ref r; };

static void ser_seq(Inst &I, vu::Ser &s) {
    MidiSequencer &q = *I.in.play()->m_sequencer; BW_MidiRtInterface &f = *I.in.play()->m_sequencerInterface;
    s.u8(q.m_loopEnabled); s.u8(q.m_loopHooksOnly); s.u32((uint32_t)q.m_loopCount); s.f64(q.m_tempoMultiplier); s.u8(q.m_atEnd); s.u32((uint32_t)q.m_loadTrackNumber); s.u64(q.m_trackSolo);
    s.u32((uint32_t)q.m_trackDisable.size()); for(size_t i = 0; i < q.m_trackDisable.size(); i++) s.u8(q.m_trackDisable[i]); s.raw(q.m_channelDisable, sizeof q.m_channelDisable);
    s.f64(q.m_currentPosition.absTimePosition); s.u64(q.m_trackData.size()); s.u32((uint32_t)q.m_format);
    s.u8(f.onEvent != NULL); s.u8(f.onloopStart != NULL); s.u8(f.onloopEnd != NULL); s.u8(f.onDebugMessage != NULL);
    MIDIEventHooks &h = I.in.play()->hooks; s.u8(h.onNote != NULL); s.u8(h.onDebugMessage != NULL); s.u8(h.onLoopStart != NULL); s.u8(h.onLoopEnd != NULL);
}
static void full_snapshot(Inst &I, std::string &out) { vu::Ser s; pl::SerOpts so; so.playback_clock = false; pl::ser_player(I.in, s, so); ser_seq(I, s); s.u32((uint32_t)I.in.tap.emulator); out.swap(s.s); }

struct C18Model : mcx::Model {
    std::vector<Op> ops;
    bool thorough = false;
    void add(K k, long a, long b, const std::string &n) { Op o; o.k = k; o.a = a; o.b = b; o.name = n; ops.push_back(o); }
    void build() {
        long nc[] = {1, 2, 100, 0, 101, -1, (long)INT_MIN, (long)INT_MAX}; for(long v : nc) add(NUMCHIPS, v, 0, "setNumChips(" + std::to_string(v) + ")");
        long em[] = {OPNMIDI_EMU_MAME, OPNMIDI_EMU_GENS, OPNMIDI_EMU_NP2, -1, 9, 31, (long)INT_MAX}; for(long v : em) add(EMU, v, 0, "switchEmulator(" + std::to_string(v) + ")");
        add(PCMRATE, 1, 0, "setRunAtPcmRate(1)"); add(PCMRATE, 0, 0, "setRunAtPcmRate(0)");
        long di[] = {0, 5, 15, 16, 255, 0xFFFFFFFFl}; for(long v : di) add(DEVID, v, 0, "setDeviceIdentifier(" + std::to_string(v) + ")");
        for(long v : {-1l, 0l, 1l}) add(LFOEN, v, 0, "setLfoEnabled(" + std::to_string(v) + ")");
        for(long v : {-1l, 0l, 5l, 7l}) add(LFOFREQ, v, 0, "setLfoFrequency(" + std::to_string(v) + ")");
        for(long v : {-1l, 0l, 1l}) add(CHIPTYPE, v, 0, "setChipType(" + std::to_string(v) + ")");
        for(long v : {0l, 1l, 3l, 5l, 6l, -1l}) add(VOLMODEL, v, 0, "setVolumeRangeModel(" + std::to_string(v) + ")");
        for(long v : {-1l, 0l, 2l, 3l, -2l}) add(ALLOC, v, 0, "setChannelAllocMode(" + std::to_string(v) + ")");
        add(SCALEMOD, 1, 0, "setScaleModulators(1)"); add(SCALEMOD, 0, 0, "setScaleModulators(0)"); add(SCALEMOD, -1, 0, "setScaleModulators(-1)"); add(FRBRIGHT, 1, 0, "setFullRangeBrightness(1)"); add(SOFTPAN, 1, 0, "setSoftPanEnabled(1)"); add(ARP, 1, 0, "setAutoArpeggio(1)"); add(ARP, 0, 0, "setAutoArpeggio(0)");
        add(LOOPEN, 1, 0, "setLoopEnabled(1)"); add(LOOPEN, 0, 0, "setLoopEnabled(0)"); for(long v : {-1l, 0l, 3l}) add(LOOPCNT, v, 0, "setLoopCount(" + std::to_string(v) + ")"); add(HOOKSONLY, 1, 0, "setLoopHooksOnly(1)"); add(HOOKSONLY, 0, 0, "setLoopHooksOnly(0)");
        add(TEMPO, 20, 0, "setTempo(2.0)"); add(TEMPO, 5, 0, "setTempo(0.5)"); add(TEMPO, 0, 0, "setTempo(0)"); add(TEMPO, -10, 0, "setTempo(-1)");
        add(HOOK_RAW, 1, 0, "setRawEventHook(fn)"); add(HOOK_RAW, 0, 0, "setRawEventHook(NULL)"); add(HOOK_NOTE, 1, 0, "setNoteHook(fn)"); add(HOOK_DEBUG, 1, 0, "setDebugMessageHook(fn)"); add(HOOK_LS, 1, 0, "setLoopStartHook(fn)"); add(HOOK_LE, 1, 0, "setLoopEndHook(fn)"); add(HOOK_LE, 0, 0, "setLoopEndHook(NULL)");
        add(RESET, 0, 0, "reset()");
        add(BANK, 0, 0, "openBankData(A)"); add(BANK, 1, 0, "openBankData(B: lfo on/3, OPNA)"); add(BANK, 2, 0, "openBankData(garbage)"); add(BANK, 3, 0, "openBankData(truncated)"); add(BANK, 4, 0, "openBankData(empty)");
        add(MUSIC, 0, 0, "openData(song)"); add(MUSIC, 1, 0, "openData(garbage)"); add(MUSIC, 2, 0, "openData(truncated song)"); add(MUSIC, 3, 0, "openData(division 0)"); add(MUSIC, 4, 0, "openData(well-formed CMF: parsed, then refused)"); add(MUSIC, 5, 0, "openData(well-formed IMF: parsed, then refused)"); add(MUSIC, 6, 0, "openData(EA-MUS song: forces 2 chips while loaded)");
        add(TRACKOPT, 0, OPNMIDI_TrackOption_Off, "setTrackOptions(0,Off)"); add(TRACKOPT, 1, OPNMIDI_TrackOption_Solo, "setTrackOptions(1,Solo)"); add(TRACKOPT, 2, OPNMIDI_TrackOption_Off, "setTrackOptions(2,Off)"); add(TRACKOPT, -1, OPNMIDI_TrackOption_Off, "setTrackOptions(SIZE_MAX,Off)"); add(TRACKOPT, 0, 4, "setTrackOptions(0,On|4)"); add(TRACKOPT, 0, OPNMIDI_TrackOption_Off | 4, "setTrackOptions(0,Off|4)"); add(TRACKOPT, 1, OPNMIDI_TrackOption_Solo | 4, "setTrackOptions(1,Solo|4)");   // a known switch together with an unknown option bit: refused, so nothing may change
        add(CHANEN, 3, 0, "setChannelEnabled(3,0)"); add(CHANEN, 3, 1, "setChannelEnabled(3,1)"); add(CHANEN, 16, 0, "setChannelEnabled(16,0)"); add(CHANEN, -1, 0, "setChannelEnabled(SIZE_MAX,0)");
        add(SYSEX_DEV, 0, 0, "sysex master volume -> device 0"); add(SYSEX_DEV, 5, 0, "sysex master volume -> device 5");
        add(GETBANK_BAD, 128, 0, "getBank(lsb=128)"); add(GETBANK_BAD, 0, 2, "getBank(percussive=2)");
        add(PLAYPROBE, 0, 0, "probe: play the song for 1 s (hooks must fire)");
        // rendering audio is not a setter: whatever sizes are asked for (30 samples leave a fractional-sample carry close to one frame behind), every setting reads as before
        add(AUDIO, 30, 0, "generate(30)"); add(AUDIO, 2052, 0, "generate(2052)");
    }
    size_t num_ops() const override { return ops.size(); }
    std::string op_name(size_t i) const override { return ops[i].name; }
    size_t num_starts() const override { return 2; }
    std::string start_name(size_t s) const override { return s ? "bank A + song loaded" : "fresh"; }
    void *fresh(size_t start) override {
        Inst *I = new Inst; I->in.create(44100);
        if(start == 1) { mcx::Verdict v; uint64_t t; apply_op(*I, find("openBankData(A)"), v, t); apply_op(*I, find("openData(song)"), v, t); }
        return I;
    }
    const Op &find(const std::string &n) { for(auto &o : ops) if(o.name == n) return o; abort(); }
    void destroy(void *p) override { delete (Inst *)p; }

    // every getter / observable setting against the reference record
    void check_getters(Inst &I, mcx::Verdict &v, const std::string &opk) {
        OPN2_MIDIPlayer *d = I.in.dev; Ref &R = I.r; OPNMIDIplay &p = *I.in.play(); OPN2 &y = *p.m_synth; MidiSequencer &q = *p.m_sequencer; char b[300];
#define EXPECT(cond, what, ...) if(!(cond)) { snprintf(b, sizeof b, __VA_ARGS__); v.fail("C18/setting-lost/" + std::string(what) + "/after-" + opk, b); return; }
        // an EA-MUS song forces its own chip count, volume model and keeps the chips as they are while it is loaded; the *requested* values (getters of the setup) stay, and everything is in force again once another song or a bank is loaded
        const bool locked = y.setupLocked();
        EXPECT(!locked || R.rsxx, "setupLocked", "the setup is locked (music mode %d) although no EA-MUS song is loaded", (int)y.m_musicMode);
        EXPECT(opn2_getNumChips(d) == R.numChips, "numChips", "opn2_getNumChips = %d, last accepted value %d", opn2_getNumChips(d), R.numChips);
        if(locked) { EXPECT((int)I.in.tap.chips.size() == opn2_getNumChipsObtained(d), "numChipsObtained", "%zu chips running, opn2_getNumChipsObtained = %d", I.in.tap.chips.size(), opn2_getNumChipsObtained(d)); }
        else {
        EXPECT(opn2_getNumChipsObtained(d) == R.numChips, "numChipsObtained", "opn2_getNumChipsObtained = %d, last accepted value %d", opn2_getNumChipsObtained(d), R.numChips);
        EXPECT((int)I.in.tap.chips.size() == R.numChips, "numChips", "%zu chips running, last accepted value %d", I.in.tap.chips.size(), R.numChips); }
        EXPECT(I.in.tap.emulator == R.emulator && p.m_setup.emulator == R.emulator, "emulator", "running emulator %d (setup %d), last accepted %d", I.in.tap.emulator, p.m_setup.emulator, R.emulator);
        EXPECT(p.m_setup.runAtPcmRate == (int)R.pcmrate, "runAtPcmRate", "requested run-at-PCM-rate %d, setting %d", (int)p.m_setup.runAtPcmRate, (int)R.pcmrate);
        if(!locked) EXPECT(!y.m_chips.empty() && y.m_chips[0]->isRunningAtPcmRate() == R.pcmrate, "runAtPcmRate", "chip runs at PCM rate: %d, setting %d", (int)y.m_chips[0]->isRunningAtPcmRate(), (int)R.pcmrate);
        int lfoEn = R.lfoEnUser < 0 ? R.bankLfoEn : R.lfoEnUser; int lfoFreq = R.lfoFreqUser < 0 ? R.bankLfoFreq : R.lfoFreqUser; int chip = R.chipTypeUser < 0 ? R.bankChip : R.chipTypeUser;
        EXPECT(opn2_getLfoEnabled(d) == lfoEn, "lfoEnabled", "opn2_getLfoEnabled = %d, expected %d (user %d, bank %d)", opn2_getLfoEnabled(d), lfoEn, R.lfoEnUser, R.bankLfoEn);
        EXPECT(opn2_getLfoFrequency(d) == lfoFreq, "lfoFrequency", "opn2_getLfoFrequency = %d, expected %d (user %d, bank %d)", opn2_getLfoFrequency(d), lfoFreq, R.lfoFreqUser, R.bankLfoFreq);
        EXPECT(opn2_getChipType(d) == chip, "chipType", "opn2_getChipType = %d, expected %d (user %d, bank %d)", opn2_getChipType(d), chip, R.chipTypeUser, R.bankChip);
        if(R.volModelUser != -100 && !locked) { int vm = R.volModelUser == 0 ? OPNMIDI_VolumeModel_Generic : R.volModelUser; EXPECT(opn2_getVolumeRangeModel(d) == vm, "volumeModel", "opn2_getVolumeRangeModel = %d, expected %d", opn2_getVolumeRangeModel(d), vm); }
        EXPECT(opn2_getChannelAllocMode(d) == R.alloc, "channelAllocMode", "opn2_getChannelAllocMode = %d, expected %d", opn2_getChannelAllocMode(d), R.alloc);
        EXPECT(opn2_getAutoArpeggio(d) == (int)R.arp, "autoArpeggio", "opn2_getAutoArpeggio = %d, expected %d", opn2_getAutoArpeggio(d), (int)R.arp);
        EXPECT(y.m_scaleModulators == R.scalemod, "scaleModulators", "scale modulators in force: %d, setting %d", (int)y.m_scaleModulators, (int)R.scalemod);
        EXPECT(p.m_setup.fullRangeBrightnessCC74 == R.frbright, "fullRangeBrightness", "full-range brightness in force: %d, setting %d", (int)p.m_setup.fullRangeBrightnessCC74, (int)R.frbright);
        EXPECT(y.m_softPanning == R.softpan, "softPan", "soft pan in force: %d, setting %d", (int)y.m_softPanning, (int)R.softpan);
        EXPECT(q.getLoopEnabled() == R.loopEn, "loopEnabled", "loop enabled: %d, setting %d", (int)q.getLoopEnabled(), (int)R.loopEn);
        EXPECT(q.getLoopsCount() == (R.loopCnt == 0 ? 1 : R.loopCnt), "loopCount", "loop count: %d, setting %d", q.getLoopsCount(), R.loopCnt);
        EXPECT((int)q.m_loopHooksOnly == R.hooksOnly, "loopHooksOnly", "loop-hooks-only in force: %d, setting %d", (int)q.m_loopHooksOnly, R.hooksOnly);
        EXPECT(q.getTempoMultiplier() == R.tempo, "tempo", "tempo multiplier %g, setting %g", q.getTempoMultiplier(), R.tempo);
        EXPECT(p.m_sysExDeviceId == R.devid, "deviceId", "SysEx device id %u, last accepted %d", p.m_sysExDeviceId, R.devid);
        BW_MidiRtInterface &f = *p.m_sequencerInterface;
        EXPECT((f.onEvent != NULL) == R.hook[0], "rawEventHook", "raw event hook installed: %d, registered: %d", (int)(f.onEvent != NULL), (int)R.hook[0]);
        EXPECT((p.hooks.onNote != NULL) == R.hook[1], "noteHook", "note hook installed: %d, registered: %d", (int)(p.hooks.onNote != NULL), (int)R.hook[1]);
        EXPECT((f.onDebugMessage != NULL) == R.hook[2] && (p.hooks.onDebugMessage != NULL) == R.hook[2], "debugHook", "debug hook installed: %d/%d, registered: %d", (int)(f.onDebugMessage != NULL), (int)(p.hooks.onDebugMessage != NULL), (int)R.hook[2]);
        EXPECT((f.onloopStart != NULL) == R.hook[3], "loopStartHook", "loop-start hook installed in the sequencer: %d, registered: %d", (int)(f.onloopStart != NULL), (int)R.hook[3]);
        EXPECT((f.onloopEnd != NULL) == R.hook[4], "loopEndHook", "loop-end hook installed in the sequencer: %d, registered: %d", (int)(f.onloopEnd != NULL), (int)R.hook[4]);
        if(R.song) {
            EXPECT((int)opn2_trackCount(d) == R.tracks, "song", "track count %zu, expected %d", opn2_trackCount(d), R.tracks);
            for(int t = 0; t < R.tracks; t++) EXPECT((int)q.m_trackDisable[(size_t)t] == R.trackOff[(size_t)t], "trackOptions", "track %d disabled: %d, setting %d", t, (int)q.m_trackDisable[(size_t)t], R.trackOff[(size_t)t]);
            EXPECT((long)(q.m_trackSolo == ~(size_t)0 ? -1 : (long)q.m_trackSolo) == R.solo, "trackSolo", "solo track %ld, setting %ld", (long)q.m_trackSolo, R.solo);
            for(int c = 0; c < 16; c++) EXPECT(q.m_channelDisable[c] == R.chanOff[c], "channelEnabled", "channel %d disabled: %d, setting %d", c, (int)q.m_channelDisable[c], (int)R.chanOff[c]);
        }
#undef EXPECT
    }

    void apply(void *p, size_t opi, mcx::Verdict &v, uint64_t &tags) override { apply_op(*(Inst *)p, ops[opi], v, tags); }

    void apply_op(Inst &I, const Op &o, mcx::Verdict &v, uint64_t &tags) {
        OPN2_MIDIPlayer *d = I.in.dev; Ref &R = I.r; (void)tags;
        std::string before; full_snapshot(I, before);
        std::string opk = o.name.substr(0, o.name.find('('));
        bool failed_call = false; bool expect_error_text = false;
        auto must_fail = [&](int rc, const char *what) { failed_call = true; if(rc >= 0) { v.fail("C18/invalid-accepted/" + opk, std::string(what) + " was accepted (returned " + std::to_string(rc) + ")"); } };
        auto must_ok = [&](int rc) { if(rc != 0) v.fail("C18/valid-rejected/" + opk, o.name + " returned " + std::to_string(rc)); };
        switch(o.k) {
        case NUMCHIPS: { int rc = opn2_setNumChips(d, (int)o.a); if(o.a >= 1 && o.a <= 100) { must_ok(rc); R.numChips = (int)o.a; } else must_fail(rc, "out-of-range chip count"); break; }
        case EMU: { int rc = opn2_switchEmulator(d, (int)o.a); bool valid = o.a == OPNMIDI_EMU_MAME || o.a == OPNMIDI_EMU_GENS || o.a == OPNMIDI_EMU_NP2; if(valid) { must_ok(rc); R.emulator = (int)o.a; } else must_fail(rc, "unavailable emulator id"); break; }
        case PCMRATE: must_ok(opn2_setRunAtPcmRate(d, (int)o.a)); R.pcmrate = o.a != 0; break;
        case DEVID: { int rc = opn2_setDeviceIdentifier(d, (unsigned)o.a); if(o.a >= 0 && o.a <= 15) { must_ok(rc); R.devid = (int)o.a; } else must_fail(rc, "device id above 15"); break; }
        case LFOEN: opn2_setLfoEnabled(d, (int)o.a); R.lfoEnUser = o.a < 0 ? -1 : (o.a != 0); break;
        case LFOFREQ: opn2_setLfoFrequency(d, (int)o.a); R.lfoFreqUser = (int)o.a; break;
        case CHIPTYPE: opn2_setChipType(d, (int)o.a); R.chipTypeUser = (int)o.a; break;
        case VOLMODEL: opn2_setVolumeRangeModel(d, (int)o.a); R.volModelUser = (o.a >= 0 && o.a <= 5) ? (int)o.a : -100; break;
        case ALLOC: opn2_setChannelAllocMode(d, (int)o.a); R.alloc = (o.a >= -1 && o.a <= 2) ? (int)o.a : -1; break;
        case SCALEMOD: opn2_setScaleModulators(d, (int)o.a);
            // -1 = "bank default": the bank format carries no such default, so which way it goes is not specified - but it has gone one way when the call returns, and that must stay in force like any other value
            R.scalemod = o.a < 0 ? I.in.synth().m_scaleModulators : o.a != 0; break;
        case FRBRIGHT: opn2_setFullRangeBrightness(d, (int)o.a); R.frbright = o.a != 0; break;
        case SOFTPAN: opn2_setSoftPanEnabled(d, (int)o.a); R.softpan = o.a != 0; break;
        case ARP: opn2_setAutoArpeggio(d, (int)o.a); R.arp = o.a != 0; break;
        case LOOPEN: opn2_setLoopEnabled(d, (int)o.a); R.loopEn = o.a != 0; break;
        case LOOPCNT: opn2_setLoopCount(d, (int)o.a); R.loopCnt = (int)o.a; break;
        case HOOKSONLY: opn2_setLoopHooksOnly(d, (int)o.a); R.hooksOnly = (int)o.a; break;
        case TEMPO: { double t = (double)o.a / 10.0; opn2_setTempo(d, t); if(t > 0) R.tempo = t; else failed_call = true; break; }
        case HOOK_RAW: opn2_setRawEventHook(d, o.a ? h_raw : NULL, o.a ? &g_hook_tag[0] : NULL); R.hook[0] = o.a != 0; break;
        case HOOK_NOTE: opn2_setNoteHook(d, o.a ? h_note : NULL, o.a ? &g_hook_tag[1] : NULL); R.hook[1] = o.a != 0; break;
        case HOOK_DEBUG: opn2_setDebugMessageHook(d, o.a ? h_dbg : NULL, o.a ? &g_hook_tag[2] : NULL); R.hook[2] = o.a != 0; break;
        case HOOK_LS: opn2_setLoopStartHook(d, o.a ? h_ls : NULL, o.a ? &g_hook_tag[3] : NULL); R.hook[3] = o.a != 0; break;
        case HOOK_LE: opn2_setLoopEndHook(d, o.a ? h_le : NULL, o.a ? &g_hook_tag[4] : NULL); R.hook[4] = o.a != 0; break;
        case RESET: opn2_reset(d); break;
        case BANK: { const std::vector<uint8_t> &b = o.a == 0 ? g_bankA : o.a == 1 ? g_bankB : o.a == 2 ? g_badbank : o.a == 3 ? g_trunc : g_badbank; long n = o.a == 4 ? 0 : (long)b.size();
            int rc = opn2_openBankData(d, b.data(), n);
            if(o.a <= 1) { must_ok(rc); R.bank_loaded = true; R.bankLfoEn = o.a == 1; R.bankLfoFreq = o.a == 1 ? 3 : 0; R.bankChip = o.a == 1 ? 1 : 0; R.lfoEnUser = R.lfoFreqUser = R.chipTypeUser = -1; R.volModelUser = 0; R.rsxx = false; }
            else { must_fail(rc, "malformed bank"); expect_error_text = true; }
            break; }
        case MUSIC: { const std::vector<uint8_t> &b = o.a == 0 ? g_song : o.a == 1 ? g_badsong : o.a == 2 ? g_trunc : g_badsong; std::vector<uint8_t> z; if(o.a == 3) { z = g_song; z[12] = 0; z[13] = 0; }
            const std::vector<uint8_t> &use = o.a == 6 ? g_rsxx : o.a == 4 ? g_cmf : o.a == 5 ? g_imf : o.a == 3 ? z : (o.a == 2 ? g_song : b); unsigned long n = o.a == 2 ? (unsigned long)(g_song.size() - 7) : (unsigned long)use.size();
            int rc = opn2_openData(d, use.data(), n);
            if((o.a == 0 || o.a == 6) && R.bank_loaded) { must_ok(rc); R.song = true; R.song_dc = false; R.rsxx = o.a == 6; R.tracks = o.a == 6 ? 1 : 3; R.trackOff.assign((size_t)R.tracks, 0); for(int c = 0; c < 16; c++) R.chanOff[c] = false; R.solo = -1; }
            else { if(rc >= 0) v.fail("C18/invalid-accepted/openData", "a malformed music file (or a file without a bank) was accepted"); expect_error_text = true; failed_call = true;
                // a rejected file may have replaced the previously loaded song (the statement asks for intact settings and the ability to load a valid file next)
                if(R.bank_loaded) { failed_call = false; R.song = false; R.song_dc = true; R.rsxx = false; } }
            break; }
        case TRACKOPT: { size_t t = o.a < 0 ? (size_t)-1 : (size_t)o.a; int rc = opn2_setTrackOptions(d, t, (unsigned)o.b); bool valid = R.song && o.a >= 0 && o.a < R.tracks && (o.b & ~3u) == 0;
            if(R.song_dc) break;   // whether the previous song survived a rejected file is not specified
            if(valid) { must_ok(rc); if(o.b == OPNMIDI_TrackOption_Off) R.trackOff[(size_t)o.a] = 1; else if(o.b == OPNMIDI_TrackOption_On) R.trackOff[(size_t)o.a] = 0; else if(o.b == OPNMIDI_TrackOption_Solo) R.solo = o.a; }
            else must_fail(rc, "track number / option out of range");
            break; }
        case CHANEN: { size_t c = o.a < 0 ? (size_t)-1 : (size_t)o.a; int rc = opn2_setChannelEnabled(d, c, (int)o.b); if(o.a >= 0 && o.a < 16) { must_ok(rc); R.chanOff[o.a] = !o.b; } else must_fail(rc, "channel number out of range"); break; }
        case SYSEX_DEV: { uint8_t m[] = {0xF0, 0x7F, (uint8_t)o.a, 0x04, 0x01, 0x00, 0x7F, 0xF7}; int rc = opn2_rt_systemExclusive(d, m, sizeof m); bool want = (int)o.a == R.devid;
            if((rc != 0) != want) { v.fail("C18/setting-lost/deviceId/sysex", "master volume addressed to device " + std::to_string(o.a) + " was " + (rc ? "accepted" : "rejected") + ", device id set to " + std::to_string(R.devid)); return; }
            break; }
        case GETBANK_BAD: { OPN2_BankId id; id.percussive = (OPN2_UInt8)o.b; id.msb = 0; id.lsb = (OPN2_UInt8)o.a; OPN2_Bank bk; must_fail(opn2_getBank(d, &id, OPNMIDI_Bank_Create, &bk), "bank id out of range"); break; }
        case AUDIO: { static short abuf[4096]; int got = opn2_generate(d, (int)o.a, abuf); if(got != (int)o.a) { v.fail("C18/generate-return", "opn2_generate(" + std::to_string(o.a) + ") returned " + std::to_string(got)); return; } break; }
        case PLAYPROBE: { if(!R.song) break; memset(g_hook_calls, 0, sizeof g_hook_calls); g_hook_wrong_ud = -1; opn2_positionRewind(d); short buf[4096]; for(int k = 0; k < 22; k++) opn2_play(d, 4096, buf);
            if(g_hook_wrong_ud >= 0) { static const char *HN[] = {"raw event", "note", "debug message", "loop-start", "loop-end"}; v.fail(std::string("C18/hook-user-data/") + HN[g_hook_wrong_ud], std::string("the ") + HN[g_hook_wrong_ud] + " hook was called with a user-data pointer other than the one it was registered with"); return; }
            if(R.hook[0] && g_hook_calls[0] == 0) { v.fail("C18/hook-not-firing/raw", "raw event hook registered but not called during playback"); return; }
            // the probe song has one note per track: track 0 on channel 0, track 1 on channel 3, track 2 on channel 9; a note reaches the synthesizer (and the note hook) only from an enabled/solo track on an enabled channel
            bool some_note = false; { static const int TCH[3] = {0, 3, 9}; for(int t = 0; t < 3 && t < R.tracks; t++) { bool ten = R.solo >= 0 ? R.solo == t : !R.trackOff[(size_t)t]; if(ten && !R.chanOff[TCH[t]]) some_note = true; } }
            if(R.hook[1] && some_note && g_hook_calls[1] == 0) { v.fail("C18/hook-not-firing/note", "note hook registered but not called during playback"); return; }
            if(R.hook[4] && !R.loopEn && g_hook_calls[4] == 0 && R.tempo >= 1.0) { v.fail("C18/hook-not-firing/loopEnd", "loop-end hook registered but not called when the song ended"); return; }
            opn2_positionRewind(d); opn2_panic(d);
            break; }
        }
        if(v.bad) return;
        if(failed_call) {
            std::string after; full_snapshot(I, after);
            if(after != before) {
                // name the first differing setting for the signature
                std::string what = "state";
                OPNMIDIplay &pp = *I.in.play();
                if(o.k == NUMCHIPS && (long)pp.m_setup.numChips != (long)R.numChips) what = "m_setup.numChips";
                v.fail("C18/rejected-call-changed-state/" + opk + "/" + what, o.name + " reported failure but the snapshot of the instance changed (" + what + ")"); return; }
        }
        if(expect_error_text) { const char *e = opn2_errorInfo(d); if(!e || !*e) { v.fail("C18/empty-error-text/" + opk, "rejected file left an empty error text"); return; } }
        check_getters(I, v, opk);
    }
    // (the fractional-sample carry of the audio calls is not a setting and is not compared around failing calls, but it decides how the next audio call splits its periods: it is part of the state identity)
    void key(void *p, vu::Ser &s) override { Inst &I = *(Inst *)p; std::string snap; full_snapshot(I, snap); s.str(snap); I.r.ser(s); s.f64(I.in.play()->m_setup.carry);
        // where the registered callbacks and their user data currently sit (the player's own record and the copies handed to the sequencer): two states that differ here have different futures,
        // so they must not be matched - a reset that re-wires the copies would otherwise be merged with the state before it and never probed
        OPNMIDIplay &pp = *I.in.play(); auto cls = [](void *u, int idx) -> uint8_t { return u == NULL ? 0 : u == (void *)&g_hook_tag[idx] ? 1 : 2; };
        s.u8(cls(pp.hooks.onNote_userData, 1)); s.u8(cls(pp.hooks.onDebugMessage_userData, 2)); s.u8(cls(pp.hooks.onLoopStart_userData, 3)); s.u8(cls(pp.hooks.onLoopEnd_userData, 4));
        s.u8(pp.hooks.onNote != NULL); s.u8(pp.hooks.onDebugMessage != NULL); s.u8(pp.hooks.onLoopStart != NULL); s.u8(pp.hooks.onLoopEnd != NULL);
        if(BW_MidiRtInterface *q = pp.m_sequencerInterface.get()) { s.u8(cls(q->onEvent_userData, 0)); s.u8(cls(q->onDebugMessage_userData, 2)); s.u8(cls(q->onloopStart_userData, 3)); s.u8(cls(q->onloopEnd_userData, 4));
            s.u8(q->onEvent != NULL); s.u8(q->onDebugMessage != NULL); s.u8(q->onloopStart != NULL); s.u8(q->onloopEnd != NULL); } }
    double budget_s(size_t) const override { return 20.0; }
};

} // namespace

int main(int argc, char **argv) {
    pl::install_hooks(true);
    { pl::BankSpec m; pl::InsSpec s; s.id = 1; for(int i = 0; i < 128; i++) m.ins[i] = s; pl::BankSpec p; p.percussive = true; pl::InsSpec dd; dd.id = 2; dd.drum_key = 40; for(int i = 27; i < 88; i++) p.ins[i] = dd;
      g_bankA = pl::make_wopn({m, p}, 0, 0, 0); g_bankB = pl::make_wopn({m, p}, 0x0B, 0, 1); g_badbank.assign(64, 'X'); g_trunc.assign(g_bankA.begin(), g_bankA.begin() + 100); }
    { gm::Track t0, t1, t2; t0.tempo(0, 500000).ev(0, {0x90, 60, 100}).ev(96, {0x80, 60, 0}).eot(0); t1.ev(10, {0x93, 62, 100}).ev(50, {0x83, 62, 0}).eot(0); t2.ev(20, {0x99, 40, 100}).ev(5, {0x89, 40, 0}).eot(0); g_song = gm::smf(1, 96, {t0.d, t1.d, t2.d}); g_badsong.assign(40, 'Q'); g_cmf = gm::seed_cmf(); g_imf = gm::imf(12); g_rsxx = gm::seed_rsxx(); }
    C18Model m; m.build();
    return mcx::run_main(argc, argv, m, "C18", 2, 3);
}
