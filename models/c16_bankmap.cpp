// C16 — the bank API behaves as a map (percussive, MSB, LSB) -> 128 instruments.
// E1: all op sequences to depth D over a 6-key universe chosen to collide in the hash buckets,
// std::map reference model in lock step, allocation counter for real-time creation.
#include "memtrack.hpp"
#include "player.hpp"
#include "mcx_main.hpp"

namespace {

struct KeyT { uint8_t perc, msb, lsb; };
static KeyT KEYS[6] = { {0, 0, 0}, {0, 2, 0}, {1, 0, 0}, {0, 0, 1}, {0, 1, 0}, {0, 3, 0} };
// second universe ("edge"): the first and the last bucket of the table and a lone middle one - {0/0/0, 1/0/0} in bucket 0, {0/1/127, 0/3/127, 1/1/127} in bucket 255 (the
// iterator's scan ends there), 0/0/127 alone in bucket 127. Indices 0 and 2 stay the two banks of the loadable file.
static const KeyT KEYS_EDGE[6] = { {0, 0, 0}, {0, 1, 127}, {1, 0, 0}, {0, 3, 127}, {1, 1, 127}, {0, 0, 127} };
static const int NKEYS = 6;

static OPN2_Instrument mk_ins(int variant) {
    OPN2_Instrument i; memset(&i, 0, sizeof i);
    i.version = 0;
    i.note_offset = (OPN2_SInt16)(variant == 0 ? -12 : 7);
    i.midi_velocity_offset = (OPN2_SInt8)(variant == 0 ? 3 : -5);
    i.percussion_key_number = (OPN2_UInt8)(variant == 0 ? 35 : 60);
    i.inst_flags = 0;
    i.fbalg = (OPN2_UInt8)(variant == 0 ? 0x3C : 0x07);
    i.lfosens = (OPN2_UInt8)(variant == 0 ? 0x11 : 0x22);
    for(int op = 0; op < 4; op++) {
        OPN2_Operator &o = i.operators[op];
        o.dtfm_30 = (OPN2_UInt8)(0x10 * op + variant + 1); o.level_40 = (OPN2_UInt8)(10 * op + variant); o.rsatk_50 = (OPN2_UInt8)(0x1F - op);
        o.amdecay1_60 = (OPN2_UInt8)(op + 2 * variant); o.decay2_70 = (OPN2_UInt8)(3 + op); o.susrel_80 = (OPN2_UInt8)(0xF0 | op); o.ssgeg_90 = (OPN2_UInt8)(variant * 8);
    }
    i.delay_on_ms = (OPN2_UInt16)(variant == 0 ? 1234 : 40000);
    i.delay_off_ms = (OPN2_UInt16)(variant == 0 ? 77 : 65535);
    return i;
}
static OPN2_Instrument blank_ins() { OPN2_Instrument i; memset(&i, 0, sizeof i); i.inst_flags = OpnInstMeta::Flag_NoSound; return i; }
static bool ins_eq(const OPN2_Instrument &a, const OPN2_Instrument &b) {
    if(a.note_offset != b.note_offset || a.midi_velocity_offset != b.midi_velocity_offset || a.percussion_key_number != b.percussion_key_number ||
       a.inst_flags != b.inst_flags || a.fbalg != b.fbalg || a.lfosens != b.lfosens || a.delay_on_ms != b.delay_on_ms || a.delay_off_ms != b.delay_off_ms) return false;
    return memcmp(a.operators, b.operators, sizeof a.operators) == 0;
}
static std::string ins_str(const OPN2_Instrument &a) {
    char b[256]; snprintf(b, sizeof b, "{off=%d vel=%d key=%u fl=%u fbalg=%02x lfo=%02x on=%u off=%u op0=%s}", a.note_offset, a.midi_velocity_offset, a.percussion_key_number,
                          a.inst_flags, a.fbalg, a.lfosens, a.delay_on_ms, a.delay_off_ms, vu::hex(&a.operators[0], 7).c_str());
    return b;
}

enum OpKind { OP_GET, OP_CREATE, OP_CREATERT, OP_REMOVE, OP_ITER, OP_RESERVE, OP_SET, OP_LOAD };
struct OpT { OpKind k; int key; int arg; int arg2; std::string name; };

struct RefBank { OPN2_Instrument ins[128]; };

struct Inst {
    pl::Instance in;
    std::map<int, RefBank> ref;      // key index -> reference bank
    size_t ref_capacity = 0;         // reference of the reserved capacity
    std::vector<uint16_t> hist;      // operations applied so far (part of the state identity in the "histories" legs)
};

static std::vector<uint8_t> g_bankfile;

static bool g_history_identity = false;   // --histories 1: no state matching at all - every history is its own state, so bookkeeping that the state key does not know about (a cached cursor, a hint) cannot be merged away
struct C16Model : mcx::Model {
    std::vector<OpT> ops;
    bool op_in_depth(size_t op, int) const override { if(!g_history_identity) return true; const OpT &o = ops[op];   // focused alphabet of the "histories" legs: creations and removals on one key per bucket + a second key of bucket 0, and one reservation
        if(o.k == OP_CREATE || o.k == OP_CREATERT || o.k == OP_REMOVE) return o.key == 0 || o.key == 1 || o.key == 3 || o.key == 4; return o.k == OP_RESERVE && o.arg == 4; }
    C16Model() {
        auto kn = [](int k) { char b[32]; snprintf(b, sizeof b, "%u/%u/%u", KEYS[k].perc, KEYS[k].msb, KEYS[k].lsb); return std::string(b); };
        for(int k = 0; k < NKEYS; k++) ops.push_back({OP_GET, k, 0, 0, "getBank(" + kn(k) + ",0)"});
        for(int k = 0; k < NKEYS; k++) ops.push_back({OP_CREATE, k, 0, 0, "getBank(" + kn(k) + ",Create)"});
        for(int k = 0; k < NKEYS; k++) ops.push_back({OP_CREATERT, k, 0, 0, "getBank(" + kn(k) + ",CreateRt)"});
        for(int k = 0; k < NKEYS; k++) ops.push_back({OP_REMOVE, k, 0, 0, "removeBank(" + kn(k) + ")"});
        ops.push_back({OP_ITER, 0, 0, 0, "iterate()"});
        int rs[] = {0, 1, 4, 5, 8};
        for(int r : rs) ops.push_back({OP_RESERVE, 0, r, 0, "reserveBanks(" + std::to_string(r) + ")"});
        int sk[] = {0, 1, 2, 4};
        for(int k : sk) { ops.push_back({OP_SET, k, 0, 0, "setInstrument(" + kn(k) + ",0,A)"}); ops.push_back({OP_SET, k, 127, 1, "setInstrument(" + kn(k) + ",127,B)"}); }
        ops.push_back({OP_LOAD, 0, 0, 0, "openBankData(2banks)"});
        // bank file: melodic 0/0/0 with ins[0] = id 9, percussive 1/0/0 with ins[127] = id 11
        pl::BankSpec m; m.percussive = false; pl::InsSpec a; a.id = 9; m.ins[0] = a;
        pl::BankSpec p; p.percussive = true; pl::InsSpec b; b.id = 11; b.drum_key = 40; p.ins[127] = b;
        g_bankfile = pl::make_wopn({m, p});
    }
    size_t num_ops() const override { return ops.size(); }
    std::string op_name(size_t i) const override { return ops[i].name; }
    enum { T_FOUND, T_MISSING, T_CREATED, T_EXISTED, T_RT_OK, T_RT_FULL, T_REMOVED, T_GROW, T_SLOT_REUSE, T_NTAGS };
    size_t num_tags() const override { return T_NTAGS; }
    std::string tag_name(size_t t) const override {
        static const char *n[] = {"lookup_found", "lookup_missing", "created", "create_existed", "createRt_ok", "createRt_capacity_exhausted", "removed", "grew_past_capacity", "reused_freed_slot"};
        return n[t];
    }
    void *fresh(size_t) override {
        Inst *i = new Inst;
        i->in.create(44100);
        return i;
    }
    void destroy(void *p) override { delete (Inst *)p; }

    static bool lookup(Inst &I, int k, int flags, OPN2_Bank &b) {
        OPN2_BankId id; id.percussive = KEYS[k].perc; id.msb = KEYS[k].msb; id.lsb = KEYS[k].lsb;
        return opn2_getBank(I.in.dev, &id, flags, &b) == 0;
    }

    // full observable comparison against the reference map
    void post_check(Inst &I, mcx::Verdict &v, const std::string &opk) {
        OPN2::BankMap &map = I.in.synth().m_insBanks;
        if(map.size() != I.ref.size()) { v.fail("C16/size/" + opk, "map.size()=" + std::to_string(map.size()) + " reference=" + std::to_string(I.ref.size())); return; }
        for(int k = 0; k < NKEYS; k++) {
            OPN2_Bank b; bool found = lookup(I, k, 0, b);
            bool exp = I.ref.count(k) != 0;
            if(found != exp) { v.fail("C16/lookup/" + opk, std::string("key ") + std::to_string(k) + (found ? " found but was never created / was removed" : " not found although present in reference")); return; }
            if(!found) continue;
            OPN2_BankId id; memset(&id, 0xEE, sizeof id);
            if(opn2_getBankId(I.in.dev, &b, &id) != 0 || id.percussive != KEYS[k].perc || id.msb != KEYS[k].msb || id.lsb != KEYS[k].lsb) {
                char t[128]; snprintf(t, sizeof t, "key %d id read back %u/%u/%u", k, id.percussive, id.msb, id.lsb);
                v.fail("C16/id/" + opk, t); return;
            }
            const int idxs[] = {0, 1, 64, 127};
            for(int idx : idxs) {
                OPN2_Instrument got; memset(&got, 0xEE, sizeof got);
                if(opn2_getInstrument(I.in.dev, &b, (unsigned)idx, &got) != 0) { v.fail("C16/getInstrument-failed/" + opk, "getInstrument failed"); return; }
                if(!ins_eq(got, I.ref[k].ins[idx])) {
                    v.fail("C16/readback/" + opk, "key " + std::to_string(k) + " idx " + std::to_string(idx) + " got " + ins_str(got) + " expected " + ins_str(I.ref[k].ins[idx])); return;
                }
            }
        }
        // iteration visits every present bank exactly once
        std::map<int, int> visits; OPN2_Bank it; int steps = 0;
        int rc = opn2_getFirstBank(I.in.dev, &it);
        while(rc == 0 && steps < 64) {
            OPN2_BankId id; opn2_getBankId(I.in.dev, &it, &id);
            int kk = -1; for(int k = 0; k < NKEYS; k++) if(KEYS[k].perc == id.percussive && KEYS[k].msb == id.msb && KEYS[k].lsb == id.lsb) kk = k;
            visits[kk]++; steps++;
            rc = opn2_getNextBank(I.in.dev, &it);
        }
        if(steps >= 64) { v.fail("C16/iteration-cycle/" + opk, "iteration did not end within 64 steps"); return; }
        for(auto &kv : visits) if(kv.first < 0 || kv.second != 1 || !I.ref.count(kv.first)) { v.fail("C16/iteration/" + opk, "iteration visited key " + std::to_string(kv.first) + " x" + std::to_string(kv.second)); return; }
        if(visits.size() != I.ref.size()) { v.fail("C16/iteration/" + opk, "iteration visited " + std::to_string(visits.size()) + " banks, reference has " + std::to_string(I.ref.size())); return; }
        // the same walk with plain (non-creating) lookups of every key between two steps: a lookup changes nothing, so the cursor must still visit every present bank exactly once
        { std::map<int, int> v2; int st2 = 0; rc = opn2_getFirstBank(I.in.dev, &it);
          while(rc == 0 && st2 < 64) { OPN2_BankId id; opn2_getBankId(I.in.dev, &it, &id); int kk = -1; for(int k = 0; k < NKEYS; k++) if(KEYS[k].perc == id.percussive && KEYS[k].msb == id.msb && KEYS[k].lsb == id.lsb) kk = k; v2[kk]++; st2++;
              for(int k = NKEYS - 1; k >= 0; k--) { OPN2_Bank tmp; lookup(I, k, 0, tmp); }
              rc = opn2_getNextBank(I.in.dev, &it); }
          if(st2 >= 64) { v.fail("C16/iteration-cycle/" + opk, "iteration with lookups between the steps did not end within 64 steps"); return; }
          if(v2 != visits) { std::string d; for(auto &kv : v2) d += " key" + std::to_string(kv.first) + "x" + std::to_string(kv.second); v.fail("C16/iteration-with-lookups/" + opk, "iteration with plain lookups between the steps visited" + d + ", " + std::to_string(I.ref.size()) + " banks are present"); return; } }
    }

    void apply(void *p, size_t opi, mcx::Verdict &v, uint64_t &tags) override {
        ((Inst *)p)->hist.push_back((uint16_t)opi);
        Inst &I = *(Inst *)p; const OpT &o = ops[opi];
        OPN2::BankMap &map = I.in.synth().m_insBanks;
        std::string opk;
        switch(o.k) {
        case OP_GET: {
            opk = "get"; OPN2_Bank b; bool f = lookup(I, o.key, 0, b);
            tags |= 1ull << (f ? T_FOUND : T_MISSING);
            break; }
        case OP_CREATE: {
            opk = "create"; OPN2_Bank b; bool existed = I.ref.count(o.key) != 0;
            size_t cap0 = map.capacity(), sz0 = map.size();
            bool ok = lookup(I, o.key, OPNMIDI_Bank_Create, b);
            if(!ok) { v.fail("C16/create-failed", "getBank(Create) failed"); return; }
            if(!existed) { RefBank rb; for(int i = 0; i < 128; i++) rb.ins[i] = blank_ins(); I.ref[o.key] = rb; tags |= 1ull << T_CREATED; if(sz0 == cap0) tags |= 1ull << T_GROW; else if(sz0 < cap0) tags |= 1ull << T_SLOT_REUSE; }
            else tags |= 1ull << T_EXISTED;
            break; }
        case OP_CREATERT: {
            opk = "createRt"; OPN2_Bank b; bool existed = I.ref.count(o.key) != 0;
            size_t cap0 = map.capacity(), sz0 = map.size();
            mt::reset();
            bool ok = lookup(I, o.key, OPNMIDI_Bank_CreateRt, b);
            uint64_t allocs = mt::n_allocs;
            if(allocs != 0) { v.fail("C16/createRt-allocates", "real-time creation performed " + std::to_string(allocs) + " allocation(s)"); return; }
            bool expect_ok = existed || sz0 < cap0;
            if(ok != expect_ok) { v.fail("C16/createRt-result", std::string("CreateRt ") + (ok ? "succeeded" : "failed") + " with size " + std::to_string(sz0) + " capacity " + std::to_string(cap0) + (existed ? " (bank existed)" : "")); return; }
            if(map.capacity() != cap0) { v.fail("C16/createRt-grew", "capacity changed during real-time creation"); return; }
            if(ok && !existed) { RefBank rb; for(int i = 0; i < 128; i++) rb.ins[i] = blank_ins(); I.ref[o.key] = rb; tags |= 1ull << T_RT_OK; }
            if(!ok) tags |= 1ull << T_RT_FULL;
            break; }
        case OP_REMOVE: {
            opk = "remove"; OPN2_Bank b; bool f = lookup(I, o.key, 0, b);
            if(f) { int rc = opn2_removeBank(I.in.dev, &b); if(rc != 0) { v.fail("C16/remove-failed", "removeBank returned " + std::to_string(rc)); return; } I.ref.erase(o.key); tags |= 1ull << T_REMOVED; }
            break; }
        case OP_ITER: opk = "iterate"; break;
        case OP_RESERVE: {
            opk = "reserve"; size_t cap0 = map.capacity();
            int rc = opn2_reserveBanks(I.in.dev, (unsigned)o.arg);
            size_t want = std::max(cap0, (size_t)o.arg);
            if((size_t)rc < want || (size_t)rc != map.capacity()) { v.fail("C16/reserve", "reserveBanks(" + std::to_string(o.arg) + ") returned " + std::to_string(rc) + " capacity before " + std::to_string(cap0)); return; }
            break; }
        case OP_SET: {
            opk = "set"; OPN2_Bank b; bool f = lookup(I, o.key, 0, b);
            if(f) { OPN2_Instrument x = mk_ins(o.arg2); int rc = opn2_setInstrument(I.in.dev, &b, (unsigned)o.arg, &x); if(rc != 0) { v.fail("C16/set-failed", "setInstrument failed"); return; } I.ref[o.key].ins[o.arg] = x; }
            break; }
        case OP_LOAD: {
            opk = "load";
            int rc = opn2_openBankData(I.in.dev, g_bankfile.data(), (long)g_bankfile.size());
            if(rc != 0) { v.fail("C16/load-failed", std::string("openBankData failed: ") + opn2_errorInfo(I.in.dev)); return; }
            I.ref.clear();
            // expected content: parse the file with the loader's own reader and convert through the public instrument type
            int err = 0; WOPNFile *w = WOPN_LoadBankFromMem((void *)g_bankfile.data(), g_bankfile.size(), &err);
            auto conv = [](const WOPNInstrument &s) { OPN2_Instrument d; memset(&d, 0, sizeof d); d.note_offset = s.note_offset; d.midi_velocity_offset = s.midi_velocity_offset; d.percussion_key_number = s.percussion_key_number;
                d.inst_flags = s.inst_flags; d.fbalg = s.fbalg; d.lfosens = s.lfosens; memcpy(d.operators, s.operators, sizeof d.operators); d.delay_on_ms = s.delay_on_ms; d.delay_off_ms = s.delay_off_ms; return d; };
            RefBank a, b2; for(int i = 0; i < 128; i++) { a.ins[i] = conv(w->banks_melodic[0].ins[i]); b2.ins[i] = conv(w->banks_percussive[0].ins[i]); }
            WOPN_Free(w);
            I.ref[0] = a; I.ref[2] = b2;
            break; }
        }
        post_check(I, v, opk);
    }

    void key(void *p, vu::Ser &s) override {
        if(g_history_identity) { Inst &H = *(Inst *)p; s.u32((uint32_t)H.hist.size()); for(auto x : H.hist) s.u16(x); }
        Inst &I = *(Inst *)p; OPN2::BankMap &map = I.in.synth().m_insBanks;
        s.u64(map.m_size); s.u64(map.m_capacity);
        // bucket chains in chain order
        for(size_t b = 0; b < OPN2::BankMap::hash_buckets; b++) {
            for(auto *sl = map.m_buckets[b]; sl; sl = sl->next) { s.u16((uint16_t)b); s.u64(sl->value.first); vu::H128 h = vu::hash128(&sl->value.second, sizeof sl->value.second); s.raw(&h, sizeof h); }
        }
        // linked structure (prev pointers, free-list order) up to slot renaming; slab count
        pl::ser_bankmap_links(map, s);
        s.u32((uint32_t)map.m_allocations.size());
        // reference model state
        s.u32((uint32_t)I.ref.size());
        for(auto &kv : I.ref) { s.u32((uint32_t)kv.first); vu::H128 h = vu::hash128(kv.second.ins, sizeof kv.second.ins); s.raw(&h, sizeof h); }
    }
};

} // namespace

int main(int argc, char **argv) {
    pl::install_hooks(true);
    { mcx::Args a = mcx::parse_args(argc, argv); if(a.extra.count("universe") && a.extra["universe"] == "edge") memcpy(KEYS, KEYS_EDGE, sizeof KEYS); if(a.extra.count("histories")) g_history_identity = a.extra["histories"] == "1"; }
    C16Model m;
    return mcx::run_main(argc, argv, m, "C16", 4, 6);
}
