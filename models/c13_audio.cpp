// C13 — audio calls fill exactly what they report, in the requested sample format (E2).
// Guard-byte accounting with two poison patterns, return-value contract, conversion table against
// the F64 rendering of the same history, on the real emulator cores.
#include "player.hpp"
#include "enumx.hpp"
#include "gen_music.hpp"

namespace {

enum { T_SUPPORTED, T_REFUSED, T_CLIPPING, T_END_OF_SONG, T_PARTIAL_CLIP, T_NT };
static const std::vector<std::string> TAGS = {"supported_pair_converted", "unsupported_pair_refused", "material_exceeds_16bit", "play_reached_end_of_song", "partial_chip_sum_exceeds_16bit"};
static std::vector<uint8_t> g_bank, g_song;

static const int CORES[] = {OPNMIDI_EMU_MAME, OPNMIDI_EMU_GENS, OPNMIDI_EMU_NUKED_YM3438, OPNMIDI_EMU_YMFM_OPN2, OPNMIDI_EMU_NP2, OPNMIDI_EMU_MAME_2608, OPNMIDI_EMU_YMFM_OPNA, OPNMIDI_EMU_NUKED_YM2612};
static const char *TN[] = {"S16", "S8", "F32", "F64", "S24", "S32", "U8", "U16", "U24", "U32"};

static bool supported(int type, unsigned c) {
    switch(type) { case OPNMIDI_SampleType_S8: case OPNMIDI_SampleType_U8: return c == 1 || c == 2 || c == 4; case OPNMIDI_SampleType_S16: case OPNMIDI_SampleType_U16: return c == 2 || c == 4;
    case OPNMIDI_SampleType_S24: case OPNMIDI_SampleType_U24: case OPNMIDI_SampleType_S32: case OPNMIDI_SampleType_U32: case OPNMIDI_SampleType_F32: return c == 4; case OPNMIDI_SampleType_F64: return c == 8; }
    return false;
}
static int32_t sat16(int32_t x) { return x < -32768 ? -32768 : x > 32767 ? 32767 : x; }
// documented conversion of the underlying integer signal x; returns the integer that must be stored (two's complement in the container)
static int64_t convert(int type, int32_t x) {
    int32_t s = sat16(x);
    switch(type) {
    case OPNMIDI_SampleType_S16: return s; case OPNMIDI_SampleType_U16: return s + 32768;
    case OPNMIDI_SampleType_S8: return s / 256; case OPNMIDI_SampleType_U8: return s / 256 + 128;
    case OPNMIDI_SampleType_S24: return (int64_t)s * 256; case OPNMIDI_SampleType_U24: return (int64_t)s * 256 + 8388608;
    case OPNMIDI_SampleType_S32: return (int64_t)s * 65536; case OPNMIDI_SampleType_U32: return (int64_t)s * 65536 + 2147483648LL;
    }
    return 0;
}

struct Cfg { int core, chips; bool loud; bool play; int request; int type; unsigned container; int layout; /*0 planar c, 1 interleaved 2c, 2 interleaved 2c+3, 3 planar with stride 2c, 4 interleaved 2c with right before left*/ long rate; int prefix = 0; /* size of an earlier plain opn2_generate/opn2_play call of the same history (0 = none) */ };

static std::string cfg_str(const Cfg &c, pl::Instance *I) { char b[240]; snprintf(b, sizeof b, "%s, %d chip(s), %s, %s(%d), %s/container %u, %s", I ? opn2_chipEmulatorName(I->dev) : "?", c.chips, c.loud ? "loud" : "quiet", c.play ? "opn2_playFormat" : "opn2_generateFormat", c.request, TN[c.type], c.container, c.layout == 0 ? "planar offset=c" : c.layout == 1 ? "interleaved offset=2c" : c.layout == 2 ? "interleaved offset=2c+3" : c.layout == 3 ? "two separate buffers, offset=2c" : "interleaved offset=2c, right before left"); return b; }

static bool make(pl::Instance &I, const Cfg &c) {
    I.create(c.rate); OPN2_MIDIPlayer *d = I.dev;
    opn2_switchEmulator(d, c.core); opn2_setNumChips(d, c.chips);
    if(opn2_openBankData(d, g_bank.data(), (long)g_bank.size()) != 0) return false;
    if(c.play) { if(opn2_openData(d, g_song.data(), (unsigned long)g_song.size()) != 0) return false; if(!c.loud) opn2_setTrackOptions(d, 1, OPNMIDI_TrackOption_Off); }
    else { int n = c.loud ? c.chips * 6 : 1; for(int k = 0; k < n; k++) opn2_rt_noteOn(d, (OPN2_UInt8)(k % 8), (OPN2_UInt8)(48 + k), 127); }
    return true;
}

struct Bufs { std::vector<uint8_t> mem; uint8_t *left, *right; size_t span; };
static void layout_bufs(Bufs &B, const Cfg &c, int frames_cap, uint8_t poison, unsigned &offset) {
    const size_t G = 64;
    if(c.layout == 0) { offset = c.container; B.span = (size_t)frames_cap * offset; B.mem.assign(G + B.span + G + B.span + G, poison); B.left = B.mem.data() + G; B.right = B.left + B.span + G; }
    else if(c.layout == 3) { offset = 2 * c.container; B.span = (size_t)frames_cap * offset; B.mem.assign(G + B.span + G + B.span + G, poison); B.left = B.mem.data() + G; B.right = B.left + B.span + G; }   // padded planar: two separate buffers, each with the stride of a packed stereo frame
    else if(c.layout == 4) { offset = 2 * c.container; B.span = (size_t)frames_cap * offset; B.mem.assign(G + B.span + G, poison); B.right = B.mem.data() + G; B.left = B.right + c.container; }            // interleaved with the channels swapped
    else { offset = c.layout == 1 ? 2 * c.container : 2 * c.container + 3; B.span = (size_t)frames_cap * offset; B.mem.assign(G + B.span + G, poison); B.left = B.mem.data() + G; B.right = B.left + c.container; }
}

static void run_case(const Cfg &c, en::CaseOut &o) {
    // reference: the same history rendered as F64 interleaved
    pl::g_use_null_chips = false;
    pl::Instance R, A, Bi;
    if(!make(R, c) || !make(A, c) || !make(Bi, c)) { o.fail("C13/harness", "setup failed"); return; }
    std::string ctx = " [" + cfg_str(c, &A) + (c.prefix ? ", after an earlier call of " + std::to_string(c.prefix) + " samples" : std::string()) + "]"; char b[400];
    if(c.prefix > 0) { static short pre[8192]; for(pl::Instance *X : {&R, &A, &Bi}) { if(c.play) opn2_play(X->dev, c.prefix, pre); else opn2_generate(X->dev, c.prefix, pre); } }   // leaves its fractional-sample carry behind
    int even = c.request - (c.request % 2); if(even < 0) even = 0;
    int cap = even / 2 + 4;
    std::vector<double> ref((size_t)cap * 2 + 8, 0.0);
    OPNMIDI_AudioFormat f64 = {OPNMIDI_SampleType_F64, 8, 16};
    int rr = c.play ? opn2_playFormat(R.dev, c.request, (OPN2_UInt8 *)ref.data(), (OPN2_UInt8 *)(ref.data() + 1), &f64) : opn2_generateFormat(R.dev, c.request, (OPN2_UInt8 *)ref.data(), (OPN2_UInt8 *)(ref.data() + 1), &f64);
    // test runs with two poison patterns
    int rets[2]; Bufs bufs[2]; unsigned offset = 0;
    OPNMIDI_AudioFormat fmt; fmt.type = (OPNMIDI_SampleType)c.type; fmt.containerSize = c.container;
    for(int k = 0; k < 2; k++) {
        layout_bufs(bufs[k], c, cap, k ? 0x5A : 0xA5, offset); fmt.sampleOffset = offset;
        pl::Instance &X = k ? Bi : A;
        rets[k] = c.play ? opn2_playFormat(X.dev, c.request, bufs[k].left, bufs[k].right, &fmt) : opn2_generateFormat(X.dev, c.request, bufs[k].left, bufs[k].right, &fmt);
    }
    bool sup = supported(c.type, c.container);
    if(rets[0] != rets[1]) { snprintf(b, sizeof b, "two runs of the same history returned %d and %d", rets[0], rets[1]); o.fail("C13/nondeterministic-return", b + ctx); return; }
    int ret = rets[0];
    // return-value contract
    if(!sup) { o.tags |= 1ull << T_REFUSED; if(ret != 0) { snprintf(b, sizeof b, "unsupported type/container pair returned %d instead of 0", ret); o.fail("C13/unsupported-accepted", b + ctx); return; } }
    else {
        if(!c.play && ret != even) { snprintf(b, sizeof b, "returned %d, the request rounded down to even is %d", ret, even); o.fail("C13/return/generate", b + ctx); return; }
        if(c.play && (ret > even || ret < 0 || (ret & 1))) { snprintf(b, sizeof b, "opn2_play returned %d for a request of %d", ret, c.request); o.fail("C13/return/play", b + ctx); return; }
        if(ret != rr) { snprintf(b, sizeof b, "returned %d samples, the F64 rendering of the same history returned %d", ret, rr); o.fail("C13/return/differs-between-formats", b + ctx); return; }
        if(c.play && ret < even) o.tags |= 1ull << T_END_OF_SONG;
    }
    // which bytes may have changed?
    int frames = sup ? ret / 2 : 0;
    for(int k = 0; k < 2; k++) {
        uint8_t poison = k ? 0x5A : 0xA5; Bufs &B = bufs[k];
        std::vector<uint8_t> allowed(B.mem.size(), 0);
        for(int i = 0; i < frames; i++) for(unsigned q = 0; q < c.container; q++) { allowed[(size_t)(B.left - B.mem.data()) + (size_t)i * offset + q] = 1; allowed[(size_t)(B.right - B.mem.data()) + (size_t)i * offset + q] = 1; }
        for(size_t p = 0; p < B.mem.size(); p++) if(!allowed[p] && B.mem[p] != poison) { long rel = (long)p - (long)(B.left - B.mem.data()); snprintf(b, sizeof b, "byte at offset %ld from 'left' changed although only %d frames x %u bytes at stride %u were reported", rel, frames, c.container, offset); o.fail(sup ? "C13/stray-write" : "C13/refused-but-wrote", b + ctx); return; }
    }
    // every reported sample must have been written: a byte that kept the poison in both runs was not stored
    for(int i = 0; i < frames; i++) for(int ch = 0; ch < 2; ch++) {
        size_t off = (size_t)i * offset; const uint8_t *p0 = (ch ? bufs[0].right : bufs[0].left) + off, *p1 = (ch ? bufs[1].right : bufs[1].left) + off;
        for(unsigned q = 0; q < c.container; q++) if(p0[q] != p1[q]) { snprintf(b, sizeof b, "frame %d %s byte %u differs between the two poison runs (%02X vs %02X): sample not (fully) written", i, ch ? "right" : "left", q, p0[q], p1[q]); o.fail("C13/sample-not-written", b + ctx); return; }
        // conversion
        double f = ref[(size_t)i * 2 + (size_t)ch]; int32_t x = (int32_t)llround(f * 32767.0);
        if(x > 32767 || x < -32768) o.tags |= 1ull << T_CLIPPING;
        if(c.type == OPNMIDI_SampleType_F64) { double g; memcpy(&g, p0, 8); if(g != f) { o.fail("C13/conversion/F64", "F64 rendering not reproducible" + ctx); return; } }
        else if(c.type == OPNMIDI_SampleType_F32) { float g; memcpy(&g, p0, 4); float want = (float)x * (1.0f / 32767.0f); if(g != want) { snprintf(b, sizeof b, "frame %d %s: float %.9g, expected %d/32767 = %.9g", i, ch ? "right" : "left", (double)g, x, (double)want); o.fail("C13/conversion/F32", b + ctx); return; } }
        else {
            int64_t want = convert(c.type, x); int64_t got = 0; uint64_t raw = 0; memcpy(&raw, p0, c.container);
            uint64_t mask = c.container == 8 ? ~0ull : ((1ull << (8 * c.container)) - 1);
            (void)got;
            if((raw & mask) != ((uint64_t)want & mask)) { snprintf(b, sizeof b, "frame %d %s: stored %llX, the documented conversion of the signal value %d is %lld (%llX)", i, ch ? "right" : "left", (unsigned long long)(raw & mask), x, (long long)want, (unsigned long long)((uint64_t)want & mask));
                o.fail(std::string("C13/conversion/") + TN[c.type] + "/container" + std::to_string(c.container), b + ctx); return; }
        }
    }
    if(sup) o.tags |= 1ull << T_SUPPORTED;
    // play: 0 only at the end of the song
    if(c.play && sup && ret == 0 && even > 0 && !opn2_atEnd(A.dev)) { o.fail("C13/return/play-zero-before-end", "opn2_play returned 0 although the song has not ended" + ctx); return; }
    o.units = (uint64_t)frames * 2 + 1; o.nontrivial = true;
    pl::g_use_null_chips = true;
}

// "The same signal": with several chips the signal is the plain sum of what each chip generates. An instance with the same history is rendered chip by chip (OPNChipBase::generate32 on every chip of
// its own, period by period as the audio call does, ticking the player in between) and summed without any clamping; the F64 / S16 output of the audio call must be that sum (S16: saturated).
static void run_mix_case(const Cfg &c, en::CaseOut &o) {
    pl::g_use_null_chips = false;
    pl::Instance R, Q, S;
    if(!make(R, c) || !make(Q, c) || !make(S, c)) { o.fail("C13/harness", "setup failed"); return; }
    std::string ctx = " [" + cfg_str(c, &R) + "]"; char b[400];
    const int frames = c.request / 2;
    std::vector<double> ref((size_t)frames * 2 + 8, 0.0); std::vector<int16_t> s16((size_t)frames * 2 + 8, 0);
    OPNMIDI_AudioFormat f64 = {OPNMIDI_SampleType_F64, 8, 16}, f16 = {OPNMIDI_SampleType_S16, 2, 4};
    int r1 = opn2_generateFormat(R.dev, c.request, (OPN2_UInt8 *)ref.data(), (OPN2_UInt8 *)(ref.data() + 1), &f64);
    int r2 = opn2_generateFormat(Q.dev, c.request, (OPN2_UInt8 *)s16.data(), (OPN2_UInt8 *)(s16.data() + 1), &f16);
    if(r1 != c.request || r2 != c.request) { snprintf(b, sizeof b, "returned %d / %d for a request of %d", r1, r2, c.request); o.fail("C13/return/generate", b + ctx); return; }
    // chip-by-chip rendering of the third instance
    OPNMIDIplay *p = S.play(); OPN2 &y = *p->m_synth; OPNMIDIplay::Setup &su = p->m_setup;
    std::vector<int64_t> sum((size_t)frames * 2, 0); std::vector<int32_t> tmp(1024);
    int left = c.request, pos = 0; double delay = double(c.request / 2) / double(su.PCM_RATE);
    while(left > 0) {
        if(delay <= 0.0) delay = double(left / 2) / double(su.PCM_RATE);
        const double eat = delay < su.maxdelay ? delay : su.maxdelay; delay -= eat;
        su.carry += double(su.PCM_RATE) * eat; long n = (long)su.carry; su.carry -= double(n);
        if(n > left / 2) n = left / 2; if(n > 512) n = 512;
        std::vector<int64_t> partial((size_t)n * 2, 0);
        for(size_t card = 0; card < y.m_chips.size(); card++) { std::fill(tmp.begin(), tmp.end(), 0); y.m_chips[card]->generate32(tmp.data(), (size_t)n);
            for(long k = 0; k < n * 2; k++) { partial[(size_t)k] += tmp[(size_t)k]; if(partial[(size_t)k] > 32767 || partial[(size_t)k] < -32768) o.tags |= 1ull << T_PARTIAL_CLIP; } }
        for(long k = 0; k < n * 2; k++) sum[(size_t)(pos * 2 + k)] = partial[(size_t)k];
        pos += (int)n; left -= (int)n * 2;
        p->TickIterators(eat);
        if(n == 0 && left > 0 && delay <= 0.0 && su.carry < 1.0 && eat <= 0.0) break;
    }
    for(int i = 0; i < frames * 2; i++) {
        int64_t want = sum[(size_t)i]; int64_t x = llround(ref[(size_t)i] * 32767.0);
        if(want > 32767 || want < -32768) o.tags |= 1ull << T_CLIPPING;
        if(x != want) { snprintf(b, sizeof b, "frame %d %s: the F64 output is %lld/32767, the sum of the %zu chips' own output is %lld", i / 2, (i & 1) ? "right" : "left", (long long)x, y.m_chips.size(), (long long)want); o.fail("C13/mix/float-is-not-the-sum-of-the-chips", b + ctx); return; }
        int64_t ws = want < -32768 ? -32768 : want > 32767 ? 32767 : want;
        if(s16[(size_t)i] != ws) { snprintf(b, sizeof b, "frame %d %s: the S16 output is %d, the saturated sum of the %zu chips' own output is %lld", i / 2, (i & 1) ? "right" : "left", (int)s16[(size_t)i], y.m_chips.size(), (long long)ws); o.fail("C13/mix/s16-is-not-the-saturated-sum", b + ctx); return; }
    }
    o.units = (uint64_t)frames * 4; o.nontrivial = true;
    pl::g_use_null_chips = true;
}

} // namespace

int main(int argc, char **argv) {
    en::Args a = en::parse_args(argc, argv);
    bool thorough = a.tier == "thorough";
    pl::install_hooks(false);
    { // loud instrument: algorithm 7, all four operators at total level 0
        WOPNFile *f = WOPN_Init(1, 1); f->version = 2;
        for(int s = 0; s < 2; s++) { WOPNBank *bk = s ? f->banks_percussive : f->banks_melodic; for(int i = 0; i < 128; i++) { WOPNInstrument &w = bk->ins[i]; memset(&w, 0, sizeof w); w.fbalg = 0x07; for(int op = 0; op < 4; op++) { w.operators[op].dtfm_30 = (uint8_t)(1 + op); w.operators[op].level_40 = 0; w.operators[op].rsatk_50 = 0x1F; w.operators[op].amdecay1_60 = 0; w.operators[op].decay2_70 = 0; w.operators[op].susrel_80 = 0x0F; } w.delay_on_ms = 40000; w.delay_off_ms = 100; w.percussion_key_number = s ? 50 : 0; } }
        size_t sz = WOPN_CalculateBankFileSize(f, 2); g_bank.resize(sz); WOPN_SaveBankToMem(f, g_bank.data(), sz, 2, 0); WOPN_Free(f); }
    { gm::Track t0, t1; t0.tempo(0, 500000).ev(0, {0x90, 60, 127}).ev(96, {0x80, 60, 0}).eot(0);
      for(int k = 0; k < 20; k++) t1.ev(0, {(uint8_t)(0x91 + k % 6), (uint8_t)(40 + k), 127}); t1.ev(90, {0x91, 40, 0}).eot(0);
      g_song = gm::smf(1, 192, {t0.d, t1.d}); }
    std::vector<en::Family> fams;
    int ncores = thorough ? 8 : 8;
    { static const unsigned CONT[] = {1, 2, 4, 8};
      en::Family F; F.name = "format_matrix"; F.count = (uint64_t)ncores * 10 * 4 * 5 * 2 * 2 * 2; F.chunk = 4; F.budget_s = 120; F.describe = "8 emulator cores x 10 sample types x container {1,2,4,8} x layout {planar offset c, interleaved 2c, interleaved 2c+3, two separate buffers with stride 2c, interleaved 2c with right before left} x chips {1,3} x {quiet, loud (all chip channels at full level)} x {generate, play}; request 1026 samples (crosses the 512-frame period) at 22050 Hz";
      F.run = [](uint64_t i, en::CaseOut &o) { Cfg c; uint64_t r = i; c.core = CORES[r % 8]; r /= 8; c.type = (int)(r % 10); r /= 10; c.container = CONT[r % 4]; r /= 4; c.layout = (int)(r % 5); r /= 5; c.chips = (r % 2) ? 3 : 1; r /= 2; c.loud = r % 2; r /= 2; c.play = r % 2; c.request = 1026; c.rate = 22050;
        if(i % 211 == 0) o.sample = cfg_str(c, NULL); run_case(c, o); };
      fams.push_back(F); }
    { static const int SIZES[] = {-4, -3, -2, -1, 0, 1, 2, 3, 1022, 1023, 1024, 1025, 1026, 2048, 69999, 70000};
      static const int TY[][2] = {{OPNMIDI_SampleType_S16, 2}, {OPNMIDI_SampleType_F32, 4}, {OPNMIDI_SampleType_U8, 1}, {OPNMIDI_SampleType_U16, 4}, {OPNMIDI_SampleType_S24, 2}, {OPNMIDI_SampleType_S32, 4}};
      en::Family F; F.name = "request_sizes"; F.count = 16 * 6 * 2 * 2 * 3 * 2; F.chunk = 2; F.budget_s = 120; F.describe = "request sizes {-4..3, 1022..1026, 2048, 69999, 70000} x {S16/2, F32/4, U8/1, U16/4, S24/2 (unsupported), S32/4} x cores {GENS, MAME} x chips {1,4} x 3 layouts x {generate, play to the end of the song}";
      F.run = [](uint64_t i, en::CaseOut &o) { Cfg c; uint64_t r = i; c.request = SIZES[r % 16]; r /= 16; int t = (int)(r % 6); c.type = TY[t][0]; c.container = (unsigned)TY[t][1]; r /= 6; c.core = (r % 2) ? OPNMIDI_EMU_MAME : OPNMIDI_EMU_GENS; r /= 2; c.chips = (r % 2) ? 4 : 1; r /= 2; c.layout = (int)(r % 3); r /= 3; c.play = r % 2; c.loud = true; c.rate = 22050;
        if(i % 97 == 0) o.sample = cfg_str(c, NULL); run_case(c, o); };
      fams.push_back(F); }
    { // two-call histories: the second call starts from whatever fractional carry / period remainder the first one left
      static std::vector<int> PRE; for(int v = 2; v <= 128; v += 2) PRE.push_back(v); for(int v : {510, 512, 514, 1022, 1024, 1026}) PRE.push_back(v);
      static const int SEC[] = {1026, 2048, 4100}; static const long RT[] = {44100, 48000, 22050}; static const int TY2[][2] = {{OPNMIDI_SampleType_S16, 2}, {OPNMIDI_SampleType_F32, 4}};
      en::Family F; F.name = "two_call_histories"; F.count = (uint64_t)PRE.size() * 3 * 3 * 2 * 2 * 2; F.chunk = 8; F.budget_s = 120; F.describe = "an earlier call of every even size 2..128 (and 510..514, 1022..1026) followed by a call of {1026, 2048, 4100} samples x sample rate {44100, 48000, 22050} x {S16/2, F32/4} x layout {planar, interleaved} x {generate, play}; GENS, 1 chip, loud";
      F.run = [](uint64_t i, en::CaseOut &o) { Cfg c; uint64_t r = i; c.prefix = PRE[r % PRE.size()]; r /= PRE.size(); c.request = SEC[r % 3]; r /= 3; c.rate = RT[r % 3]; r /= 3; int t = (int)(r % 2); c.type = TY2[t][0]; c.container = (unsigned)TY2[t][1]; r /= 2; c.layout = (int)(r % 2); r /= 2; c.play = r % 2; c.core = OPNMIDI_EMU_GENS; c.chips = 1; c.loud = true;
        if(i % 499 == 0) o.sample = cfg_str(c, NULL) + " after " + std::to_string(c.prefix); run_case(c, o); };
      fams.push_back(F); }
    { // every request size in a range: the 512-frame period splitting and the odd-sample handling depend on the exact value
      static std::vector<int> SZ; if(thorough) { for(int v = 0; v <= 2200; v++) SZ.push_back(v); } else { for(int v = 0; v <= 40; v++) SZ.push_back(v); for(int k = 1; k <= 4; k++) for(int d = -4; d <= 4; d++) SZ.push_back(1024 * k + d); }
      static const int TY[][2] = {{OPNMIDI_SampleType_S16, 2}, {OPNMIDI_SampleType_F32, 4}, {OPNMIDI_SampleType_U8, 2}};
      en::Family F; F.name = "request_sizes_dense"; F.count = (uint64_t)SZ.size() * 3 * 3 * 2; F.chunk = 8; F.budget_s = 120; F.describe = std::string("request size ") + (thorough ? "every value 0..2200" : "every value 0..40 and 1024k-4..1024k+4 for k=1..4") + " x {S16/2, F32/4, U8 in 2-byte container} x 3 layouts x {generate, play}; GENS, 1 chip, loud";
      F.run = [](uint64_t i, en::CaseOut &o) { Cfg c; uint64_t r = i; c.request = SZ[r % SZ.size()]; r /= SZ.size(); int t = (int)(r % 3); c.type = TY[t][0]; c.container = (unsigned)TY[t][1]; r /= 3; c.layout = (int)(r % 3); r /= 3; c.play = r % 2; c.core = OPNMIDI_EMU_GENS; c.chips = 1; c.loud = true; c.rate = 22050;
        if(i % 499 == 0) o.sample = cfg_str(c, NULL); run_case(c, o); };
      fams.push_back(F); }
    { // the mix of several chips against a chip-by-chip rendering
      en::Family F; F.name = "mix_is_sum_of_chips"; F.count = 8 * 4 * 2 * 2; F.chunk = 2; F.budget_s = 120; F.describe = "8 emulator cores x chips {1,2,3,4} x {quiet, loud (every chip channel at full level: partial sums leave the 16-bit range)} x sample rate {22050, 44100}: F64 and S16 output of opn2_generateFormat(2052) against the unclamped sum of every chip's own generate32 output, rendered on a third instance with the same history";
      F.run = [](uint64_t i, en::CaseOut &o) { Cfg c; uint64_t r = i; c.core = CORES[r % 8]; r /= 8; c.chips = 1 + (int)(r % 4); r /= 4; c.loud = r % 2; r /= 2; c.rate = (r % 2) ? 44100 : 22050; c.play = false; c.request = 2052; c.type = OPNMIDI_SampleType_F64; c.container = 8; c.layout = 1;
        o.sample = cfg_str(c, NULL); run_mix_case(c, o); };
      fams.push_back(F); }
    return en::run_main(argc, argv, "C13", fams, TAGS, "non-trivial: the call ran with two poison patterns, the guards/strides were accounted for and every reported sample was compared with the documented conversion of the F64 rendering");
}
