// C01 — untrusted music data never crashes, corrupts memory or hangs the player (E2, wide seam:
// opn2_openData on an exact-size heap block + follow-up calls, null chips).
#include "memtrack.hpp"
#include "player.hpp"
#include "enumx.hpp"
#include "gen_music.hpp"

namespace {

enum { T_LOADED, T_REJECTED, T_SMF, T_RMI, T_GMF, T_MUS, T_XMI, T_CMF, T_IMF, T_RSXX, T_PLAYED_TO_END, T_NT };
static const std::vector<std::string> TAGS = {"load_ok", "load_rejected", "format_smf", "format_rmi", "format_gmf", "format_mus", "format_xmi", "format_cmf", "format_imf", "format_rsxx", "played_to_end"};

static std::vector<uint8_t> g_bank;
typedef gm::Bytes Bytes;

// 16 MiB slack + 8 MiB for the instance + 16 KiB per input byte: the steepest legitimate growth is a device-switch meta event (FF 09, 5 bytes) that adds 16 MIDI channels of about 24 KiB each
static uint64_t heap_budget(size_t n) { return (16ull << 20) + 16384ull * n + (8ull << 20); }

// follow-up alphabet
enum FU { FU_PLAY64, FU_PLAY4096, FU_TICK, FU_SEEK0, FU_SEEKMID, FU_SEEKEND, FU_SEEKPAST, FU_REWIND, FU_SONG_M1, FU_SONG0, FU_SONG1, FU_SONG99, FU_TELLS, FU_META, FU_LOOP_ON, FU_TRACKOPT, FU_CHANOFF, FU_ATEND, FU_PLAYLONG, FU_COUNT };
static const char *FU_NAME[] = {"play(64)", "play(4096)", "tickEvents(0.01)", "seek(0)", "seek(len/2)", "seek(len-0.5)", "seek(len+1)", "rewind", "selectSong(-1)", "selectSong(0)", "selectSong(1)", "selectSong(99)", "tell/length/loop", "meta queries", "setLoopEnabled(1)", "setTrackOptions", "setChannelEnabled(0,0)", "atEnd", "play(44100x2)"};

static void followup(OPN2_MIDIPlayer *d, int f, uint64_t &tags) {
    static short buf[88200 + 8];
    volatile size_t sink = 0;
    switch(f) {
    case FU_PLAY64: opn2_play(d, 64, buf); break;
    case FU_PLAY4096: opn2_play(d, 4096, buf); break;
    case FU_PLAYLONG: { for(int i = 0; i < 4; i++) { int r = opn2_play(d, 88200, buf); if(r == 0) { tags |= 1ull << T_PLAYED_TO_END; break; } } break; }
    case FU_TICK: opn2_tickEvents(d, 0.01, 0.001); break;
    case FU_SEEK0: opn2_positionSeek(d, 0.0); break;
    case FU_SEEKMID: opn2_positionSeek(d, opn2_totalTimeLength(d) * 0.5); break;
    case FU_SEEKEND: opn2_positionSeek(d, opn2_totalTimeLength(d) - 0.5); break;
    case FU_SEEKPAST: opn2_positionSeek(d, opn2_totalTimeLength(d) + 1.0); break;
    case FU_REWIND: opn2_positionRewind(d); break;
    case FU_SONG_M1: opn2_selectSongNum(d, -1); break;
    case FU_SONG0: opn2_selectSongNum(d, 0); break;
    case FU_SONG1: opn2_selectSongNum(d, 1); break;
    case FU_SONG99: opn2_selectSongNum(d, 99); break;
    case FU_TELLS: sink += (size_t)opn2_positionTell(d) + (size_t)opn2_totalTimeLength(d) + (size_t)opn2_loopStartTime(d) + (size_t)opn2_loopEndTime(d) + (size_t)opn2_getSongsCount(d) + opn2_trackCount(d); break;
    case FU_META: {
        sink += strlen(opn2_metaMusicTitle(d)) + strlen(opn2_metaMusicCopyright(d));
        size_t n = opn2_metaTrackTitleCount(d); size_t idx[] = {0, n ? n - 1 : 0, n, (size_t)-1};
        for(size_t i : idx) sink += strlen(opn2_metaTrackTitle(d, i));
        size_t m = opn2_metaMarkerCount(d); size_t midx[] = {0, m ? m - 1 : 0, m, (size_t)-1};
        for(size_t i : midx) { Opn2_MarkerEntry e = opn2_metaMarker(d, i); sink += strlen(e.label) + (size_t)e.pos_ticks; }
        break; }
    case FU_LOOP_ON: opn2_setLoopEnabled(d, 1); opn2_setLoopCount(d, 2); break;
    case FU_TRACKOPT: { size_t n = opn2_trackCount(d); opn2_setTrackOptions(d, 0, OPNMIDI_TrackOption_Solo); opn2_setTrackOptions(d, n, OPNMIDI_TrackOption_Off); opn2_setTrackOptions(d, n ? n - 1 : 0, OPNMIDI_TrackOption_Off); opn2_setTrackOptions(d, (size_t)-1, OPNMIDI_TrackOption_On); break; }
    case FU_CHANOFF: opn2_setChannelEnabled(d, 0, 0); opn2_setChannelEnabled(d, 16, 0); break;
    case FU_ATEND: sink += (size_t)opn2_atEnd(d); break;
    }
    (void)sink;
}

// canonical follow-up sequence touching every op (depth-1 coverage on every loaded input)
static const int CANON[] = {FU_TELLS, FU_META, FU_ATEND, FU_PLAY64, FU_TICK, FU_SEEKMID, FU_PLAY4096, FU_SEEKPAST, FU_SEEKEND, FU_PLAY64, FU_REWIND, FU_SONG1, FU_PLAY64, FU_SONG99, FU_SONG_M1, FU_SONG0, FU_TRACKOPT, FU_CHANOFF,
                            FU_LOOP_ON, FU_PLAYLONG, FU_SEEK0, FU_PLAY4096, FU_META, FU_TELLS};

struct Loaded { pl::Instance I; bool ok = false; };
static bool g_via_file = false;

static bool load(Loaded &L, const Bytes &b, en::CaseOut &o, int presel_song = -2) {
    L.I.create(44100); L.I.tap.logging = false;   // the harness's own register log must not count against the heap budget
    OPN2_MIDIPlayer *d = L.I.dev;
    opn2_setNumChips(d, 1);
    opn2_openBankData(d, g_bank.data(), (long)g_bank.size());
    if(presel_song != -2) opn2_selectSongNum(d, presel_song);
    mt::reset();
    uint8_t *blk = (uint8_t *)malloc(b.size() ? b.size() : 1); if(b.size()) memcpy(blk, b.data(), b.size());
    int rc;
    if(g_via_file) {   // the same bytes through the FILE*-backed reader (seeks are not clamped to the size there)
        FILE *f = fopen("c01_input.bin", "wb"); if(!f) { o.fail("C01/harness", "cannot write the input file"); free(blk); return false; } if(b.size()) fwrite(blk, 1, b.size(), f); fclose(f);
        rc = opn2_openFile(d, "c01_input.bin");
    } else rc = opn2_openData(d, blk, (unsigned long)b.size());
    free(blk);
    if(rc == 0) { o.tags |= 1ull << T_LOADED; o.nontrivial = true; L.ok = true;
        switch(L.I.play()->m_sequencer->getFormat()) { case MidiSequencer::Format_MIDI: o.tags |= 1ull << T_SMF; break; case MidiSequencer::Format_XMIDI: o.tags |= 1ull << T_XMI; break; case MidiSequencer::Format_RSXX: o.tags |= 1ull << T_RSXX; break; default: break; } }
    else {
        o.tags |= 1ull << T_REJECTED;
        if(rc != -1) o.fail("C01/undefined-return", std::string(g_via_file ? "opn2_openFile" : "opn2_openData") + " returned " + std::to_string(rc));
        const char *e = opn2_errorInfo(d);
        if(!e || !*e) o.fail("C01/empty-error-text", std::string(g_via_file ? "opn2_openFile" : "opn2_openData") + " failed with an empty error text");
    }
    return L.ok;
}

static void check_heap(size_t n, en::CaseOut &o, const char *phase) {
    if(mt::peak_bytes > heap_budget(n)) {
        char t[200]; snprintf(t, sizeof t, "peak heap %llu bytes (largest single allocation %llu) for a %zu-byte input during %s; budget %llu", (unsigned long long)mt::peak_bytes, (unsigned long long)mt::biggest, n, phase, (unsigned long long)heap_budget(n));
        o.fail(std::string("C01/memory-not-proportional/") + phase, t);
    }
}

static void run_case(const Bytes &b, en::CaseOut &o, bool canon = true, int fu1 = -1, int fu2 = -1, int presel = -2) {
    o.input_hex = vu::hex(b.data(), std::min<size_t>(b.size(), 400));
    Loaded L;
    bool ok = load(L, b, o, presel);
    check_heap(b.size(), o, "load");
    if(o.bad) return;
    // A rejected load is followed by the same calls: "loading plus any subsequent playback, seeking, song
    // switching and metadata queries" must stay memory-safe whether or not the loader accepted the bytes.
    (void)ok;
    uint64_t tags = 0;
    if(fu1 >= 0) { followup(L.I.dev, fu1, tags); if(fu2 >= 0) followup(L.I.dev, fu2, tags); }
    else if(canon) for(int f : CANON) followup(L.I.dev, f, tags);
    o.tags |= tags;
    check_heap(b.size(), o, "playback");
}

// ---- alphabets ----------------------------------------------------------------------------------
static const uint8_t SG_SMF[] = {0x00, 0x01, 0x7F, 0x80, 0x81, 0xFF, 0x90, 0xB0, 0xC0, 0xE0, 0xF0, 0xF7, 0x2F, 0x51, 0x06, 0x6E, 0x6F, 0xE4};
static const uint8_t SG_MUS[] = {0x00, 0x10, 0x20, 0x30, 0x40, 0x60, 0x90, 0xB0, 0xC0, 0x8F, 0x1F, 0x0C, 0x0E, 0x0F, 0x7F, 0x80, 0xFF, 0x3C};
static const uint8_t SG_XMI[] = {0x00, 0x01, 0x7F, 0x80, 0x90, 0xB0, 0xC0, 0xE0, 0xF0, 0xFF, 0x2F, 0x51, 0x74, 0x75, 0x77, 0x03, 0x06, 0x81};
static const int NSG = 18;

static uint64_t strings_upto(int L) { uint64_t t = 0, p = 1; for(int l = 0; l <= L; l++) { t += p; p *= NSG; } return t; }
static Bytes nth_string(uint64_t r, const uint8_t *sg) { int len = 0; uint64_t pw = 1; while(r >= pw) { r -= pw; pw *= NSG; len++; } Bytes s; for(int k = 0; k < len; k++) { s.push_back(sg[r % NSG]); r /= NSG; } return s; }

static std::vector<std::pair<std::string, Bytes>> g_seeds;
static const uint8_t REPL[] = {0x00, 0x01, 0x7F, 0x80, 0xFF};

// N_1(seed): substitutions (5 fixed values + b^0x80, b+1, b-1), truncations, deletions, insertions from the SMF alphabet
static uint64_t n1_count(const Bytes &s) { return (uint64_t)s.size() * 8 + (s.size() + 1) + s.size() + (uint64_t)(s.size() + 1) * NSG; }
static bool n1_case(const Bytes &s, uint64_t i, Bytes &out, std::string &desc) {
    out = s; size_t n = s.size();
    if(i < (uint64_t)n * 8) { size_t pos = (size_t)(i / 8); int r = (int)(i % 8); uint8_t v = r < 5 ? REPL[r] : r == 5 ? (uint8_t)(s[pos] ^ 0x80) : r == 6 ? (uint8_t)(s[pos] + 1) : (uint8_t)(s[pos] - 1);
        if(v == s[pos]) return false; if(r >= 5) for(int q = 0; q < 5; q++) if(REPL[q] == v) return false; out[pos] = v; desc = "byte " + std::to_string(pos) + " := " + std::to_string(v); return true; }
    i -= (uint64_t)n * 8;
    if(i < n + 1) { out.resize((size_t)i); desc = "truncated to " + std::to_string(i); return i != n; }
    i -= n + 1;
    if(i < n) { out.erase(out.begin() + (long)i); desc = "byte " + std::to_string(i) + " deleted"; return true; }
    i -= n;
    size_t pos = (size_t)(i / NSG); out.insert(out.begin() + (long)pos, SG_SMF[i % NSG]); desc = "inserted " + std::to_string(SG_SMF[i % NSG]) + " at " + std::to_string(pos); return true;
}

static const uint32_t BND16[] = {0, 1, 2, 3, 0x7F, 0x80, 0xFF, 0x100, 0x7FFF, 0x8000, 0xFFFE, 0xFFFF};
static const uint32_t BND32[] = {0, 1, 2, 0x7F, 0x80, 0xFF, 0xFFFF, 0x10000, 0x7FFFFFFF, 0x80000000u, 0xFFFFFFF0u, 0xFFFFFFFFu};

struct FieldRef { std::string seed; size_t off; int width; bool le; std::string name; };
static std::vector<FieldRef> g_fields;
static const Bytes &seed_by_name(const std::string &n) { for(auto &s : g_seeds) if(s.first == n) return s.second; return g_seeds[0].second; }
static size_t find_sub(const Bytes &b, const char *id, size_t from = 0) { size_t n = strlen(id); for(size_t i = from; i + n <= b.size(); i++) if(!memcmp(&b[i], id, n)) return i; return (size_t)-1; }
static void set_field(Bytes &b, const FieldRef &f, uint32_t v) { for(int k = 0; k < f.width; k++) { int sh = f.le ? 8 * k : 8 * (f.width - 1 - k); if(f.off + (size_t)k < b.size()) b[f.off + (size_t)k] = (uint8_t)(v >> sh); } }

static void build_seeds_and_fields() {
    g_seeds.push_back({"smf0", gm::seed_smf0()}); g_seeds.push_back({"smf1", gm::seed_smf1()}); g_seeds.push_back({"rmi", gm::rmi(gm::seed_smf0())});
    { gm::Track t; t.ev(0, {0x90, 60, 100}).ev(20, {0x80, 60, 0}); g_seeds.push_back({"gmf", gm::gmf(t.d)}); }
    g_seeds.push_back({"mus", gm::seed_mus()}); g_seeds.push_back({"xmi", gm::seed_xmi()}); g_seeds.push_back({"cmf", gm::seed_cmf()}); g_seeds.push_back({"imf", gm::imf(12)}); g_seeds.push_back({"rsxx", gm::seed_rsxx()});
    { gm::Track t; t.ev(0, {0x90, 60, 100}); for(int i = 0; i < 6; i++) t.raw({0, (uint8_t)(61 + i), 90}); t.meta(0, 0x06, "loopStart").ev(1, {0x80, 60, 0}).meta(0, 0x06, "loopEnd").eot(0); g_seeds.push_back({"smf_runstatus_loop", gm::smf(0, 1, {t.d})}); }
    auto F = [&](const std::string &seed, size_t off, int w, bool le, const std::string &nm) { if(off != (size_t)-1) g_fields.push_back({seed, off, w, le, nm}); };
    F("smf1", 8, 2, false, "SMF format"); F("smf1", 10, 2, false, "SMF ntrks"); F("smf1", 12, 2, false, "SMF division"); F("smf1", 18, 4, false, "MTrk[0] length");
    { const Bytes &s = seed_by_name("smf1"); size_t p = find_sub(s, "MTrk", 22); F("smf1", p + 4, 4, false, "MTrk[1] length"); }
    F("rmi", 4, 4, true, "RIFF size"); F("rmi", 16, 4, true, "RIFF data size"); F("rmi", 20 + 10, 2, false, "RMI ntrks"); F("rmi", 20 + 8, 2, false, "RMI format"); F("rmi", 20 + 12, 2, false, "RMI division"); F("rmi", 20 + 4, 4, false, "RMI MThd length"); F("rmi", 20 + 18, 4, false, "RMI MTrk[0] length");
    F("mus", 4, 2, true, "MUS scoreLen"); F("mus", 6, 2, true, "MUS scoreStart"); F("mus", 8, 2, true, "MUS channels"); F("mus", 10, 2, true, "MUS secChannels"); F("mus", 12, 2, true, "MUS instrCnt");
    { const Bytes &s = seed_by_name("xmi"); F("xmi", 4, 4, false, "XMI FORM length"); size_t p = find_sub(s, "INFO"); F("xmi", p + 4, 4, false, "XMI INFO length"); F("xmi", p + 8, 2, true, "XMI track count");
      p = find_sub(s, "CAT "); F("xmi", p + 4, 4, false, "XMI CAT length"); p = find_sub(s, "FORM", p); F("xmi", p + 4, 4, false, "XMI song FORM length");
      p = find_sub(s, "TIMB"); F("xmi", p + 4, 4, false, "XMI TIMB length"); p = find_sub(s, "RBRN"); F("xmi", p + 4, 4, false, "XMI RBRN length"); F("xmi", p + 8, 2, true, "XMI RBRN count"); F("xmi", p + 12, 4, true, "XMI RBRN offset");
      p = find_sub(s, "EVNT"); F("xmi", p + 4, 4, false, "XMI EVNT length"); }
    F("cmf", 6, 2, true, "CMF ins_start"); F("cmf", 8, 2, true, "CMF mus_start"); F("cmf", 12, 2, true, "CMF ticks"); F("cmf", 36, 2, true, "CMF ins_count");
    F("rsxx", 0, 1, true, "RSXX head byte"); F("imf", 0, 2, true, "IMF length");
}

static Bytes scaling_input(int pattern, size_t target) {
    Bytes b;
    switch(pattern) {
    case 0: { gm::Track t; t.meta(0, 0x06, "loopStart"); while(t.d.size() + 8 < target) t.ev(0, {0x90, (uint8_t)(t.d.size() % 100), 100}); t.meta(0, 0x06, "loopEnd").eot(0); return gm::smf(0, 96, {t.d}); }           // zero-delta storm inside a loop
    case 1: { gm::Track t; while(t.d.size() + 12 < target) { t.meta(0, 0x06, "loopstart=0"); t.meta(0, 0x06, "loopend=1"); } t.eot(0); return gm::smf(0, 96, {t.d}); }                                                     // nested stack-loop markers
    case 2: { gm::Track t; while(t.d.size() + 10 < target) { gm::put_varlen(t.d, 0x0FFFFFFF); t.raw({0x90, 60, 100}); } t.eot(0); return gm::smf(0, 1, {t.d}); }                                                               // maximal deltas
    case 3: { gm::XmiSong s; while(s.evnt.size() + 10 < target) { s.evnt.push_back(0x90); s.evnt.push_back(60); s.evnt.push_back(100); s.evnt.push_back(0xFF); s.evnt.push_back(0xFF); s.evnt.push_back(0xFF); s.evnt.push_back(0x7F); } s.evnt.push_back(0xFF); s.evnt.push_back(0x2F); s.evnt.push_back(0); return gm::xmi({s}); }   // maximal-duration XMI notes
    case 4: { Bytes s; while(s.size() + 6 < target) { s.push_back(0x90); s.push_back(0xBC); s.push_back(0x7F); s.push_back(0xFF); s.push_back(0xFF); s.push_back(0x7F); } s.push_back(0x60); return gm::mus(s, 15, 1); }     // MUS long delays
    case 5: { std::vector<Bytes> tr; size_t per = 16; for(size_t k = 0; k * per < target && k < 4000; k++) { gm::Track t; t.ev((uint32_t)k, {0x90, 60, 100}).eot(1); tr.push_back(t.d); } return gm::smf(1, 96, tr); }          // many tracks
    default: { gm::Track t; while(t.d.size() + 40 < target) t.meta(0, 0x03, std::string(30, 'T')); t.eot(0); return gm::smf(0, 96, {t.d}); }                                                                                 // many titles
    }
}

} // namespace

int main(int argc, char **argv) {
    en::Args a = en::parse_args(argc, argv);
    bool thorough = a.tier == "thorough";
    pl::install_hooks(true);
    { pl::BankSpec m; pl::InsSpec s; s.id = 1; for(int i = 0; i < 128; i += 1) m.ins[i] = s; pl::BankSpec p; p.percussive = true; pl::InsSpec d; d.id = 2; d.drum_key = 40; for(int i = 27; i < 88; i++) p.ins[i] = d; g_bank = pl::make_wopn({m, p}); }
    build_seeds_and_fields();
    std::vector<en::Family> fams;
    int L = thorough ? 5 : 4;
    { en::Family F; F.name = "seeds_canonical"; F.count = g_seeds.size(); F.chunk = 1; F.budget_s = 60; F.describe = "d=0: the well-formed seeds (SMF0, SMF1 with loops/devices, RMI, GMF, MUS, XMI with 2 songs/RBRN/TIMB, CMF, IMF, RSXX) with the canonical follow-up sequence";
      F.run = [](uint64_t i, en::CaseOut &o) { o.sample = g_seeds[i].first + " (" + std::to_string(g_seeds[i].second.size()) + " bytes)"; run_case(g_seeds[i].second, o); };
      fams.push_back(F); }
    { en::Family F; F.name = "smf_bodies"; F.count = strings_upto(L) * 2; F.chunk = 512; F.budget_s = 20; F.describe = "every string over the 18-symbol SMF alphabet {00 01 7F 80 81 FF 90 B0 C0 E0 F0 F7 2F 51 06 6E 6F E4} up to length " + std::to_string(L) + " as the body of a 1-track SMF, with and without a leading note-on (running status context)";
      F.run = [](uint64_t i, en::CaseOut &o) { Bytes body; if(i & 1) { body = {0x00, 0x90, 0x3C, 0x64}; } Bytes s = nth_string(i >> 1, SG_SMF); gm::append(body, s); if((i >> 1) % 40000 == 7) o.sample = "track body " + vu::hex(body); run_case(gm::smf(0, 96, {body}), o); };
      fams.push_back(F); }
    { en::Family F; F.name = "mus_scores"; F.count = strings_upto(L); F.chunk = 512; F.budget_s = 20; F.describe = "every string over the 18-symbol MUS alphabet (event types with/without last bit, controller indices 0,12,14,15, volume flag) up to length " + std::to_string(L) + " as the score of a MUS file";
      F.run = [](uint64_t i, en::CaseOut &o) { Bytes s = nth_string(i, SG_MUS); if(i % 40000 == 7) o.sample = "score " + vu::hex(s); run_case(gm::mus(s, 2, 1), o); if(o.tags & (1ull << T_LOADED)) o.tags |= 1ull << T_MUS; };
      fams.push_back(F); }
    { en::Family F; F.name = "xmi_events"; F.count = strings_upto(L); F.chunk = 512; F.budget_s = 20; F.describe = "every string over the 18-symbol XMI alphabet up to length " + std::to_string(L) + " as the EVNT chunk of a one-song XMI";
      F.run = [](uint64_t i, en::CaseOut &o) { gm::XmiSong s; s.evnt = nth_string(i, SG_XMI); if(i % 40000 == 7) o.sample = "EVNT " + vu::hex(s.evnt); run_case(gm::xmi({s}), o); };
      fams.push_back(F); }
    { uint64_t tot = 0; for(auto &s : g_seeds) tot += n1_count(s.second);
      en::Family F; F.name = "deviations_1"; F.count = tot; F.chunk = 128; F.budget_s = 60; F.describe = "N_1(seed) for the 10 seeds: every single-byte substitution from {00,01,7F,80,FF,b^80,b+1,b-1}, every truncation, every single deletion, every single insertion from the SMF alphabet; canonical follow-ups on what loads";
      F.run = [](uint64_t i, en::CaseOut &o) { size_t k = 0; while(i >= n1_count(g_seeds[k].second)) { i -= n1_count(g_seeds[k].second); k++; } Bytes b; std::string d; if(!n1_case(g_seeds[k].second, i, b, d)) { o.skip = true; return; }
        if(i % 997 == 0) o.sample = g_seeds[k].first + ": " + d; run_case(b, o); };
      fams.push_back(F); }
    { en::Family F; F.name = "fields_single"; F.count = (uint64_t)g_fields.size() * 12 * 3; F.chunk = 8; F.budget_s = 60; F.describe = "every length/count/offset/division field of every header (" + std::to_string(g_fields.size()) + " fields) x 12 boundary values x body {as is, one byte shorter, one byte longer}";
      F.run = [](uint64_t i, en::CaseOut &o) { const FieldRef &f = g_fields[(size_t)(i % g_fields.size())]; unsigned vi = (unsigned)((i / g_fields.size()) % 12), bs = (unsigned)(i / g_fields.size() / 12);
        Bytes b = seed_by_name(f.seed); uint32_t v = f.width == 4 ? BND32[vi] : (f.width == 1 ? (BND16[vi] & 0xFF) : BND16[vi]); set_field(b, f, v); if(bs == 1 && !b.empty()) b.pop_back(); else if(bs == 2) b.push_back(0);
        o.sample = f.name + " := " + std::to_string(v) + (bs == 1 ? " (body -1)" : bs == 2 ? " (body +1)" : ""); run_case(b, o); };
      fams.push_back(F); }
    { en::Family F; F.name = "fields_single_via_file"; F.count = (uint64_t)g_fields.size() * 12 * 3 + g_seeds.size(); F.chunk = 8; F.budget_s = 60; F.describe = "the same header-field boundary cases, and the unchanged seeds, written to a file and loaded through opn2_openFile (FILE*-backed reader: seeks beyond the end are not clamped as they are by the memory reader)";
      F.run = [](uint64_t i, en::CaseOut &o) { uint64_t nf = (uint64_t)g_fields.size() * 12 * 3; Bytes b;
        if(i >= nf) { b = g_seeds[(size_t)(i - nf)].second; o.sample = g_seeds[(size_t)(i - nf)].first + " via file"; }
        else { const FieldRef &f = g_fields[(size_t)(i % g_fields.size())]; unsigned vi = (unsigned)((i / g_fields.size()) % 12), bs = (unsigned)(i / g_fields.size() / 12);
          b = seed_by_name(f.seed); uint32_t v = f.width == 4 ? BND32[vi] : (f.width == 1 ? (BND16[vi] & 0xFF) : BND16[vi]); set_field(b, f, v); if(bs == 1 && !b.empty()) b.pop_back(); else if(bs == 2) b.push_back(0);
          o.sample = f.name + " := " + std::to_string(v) + " via file"; }
        g_via_file = true; run_case(b, o); g_via_file = false; };
      fams.push_back(F); }
    if(thorough) {
      en::Family F; uint64_t np = 0; std::vector<std::pair<size_t, size_t>> pairs; for(size_t x = 0; x < g_fields.size(); x++) for(size_t y = x + 1; y < g_fields.size(); y++) if(g_fields[x].seed == g_fields[y].seed) pairs.push_back({x, y}); np = pairs.size();
      F.name = "fields_pairs"; F.count = np * 144; F.chunk = 16; F.budget_s = 60; F.describe = "all pairs of header fields of the same seed (" + std::to_string(np) + " pairs) x 12 x 12 boundary values";
      F.run = [pairs](uint64_t i, en::CaseOut &o) { auto pr = pairs[(size_t)(i % pairs.size())]; unsigned v1 = (unsigned)((i / pairs.size()) % 12), v2 = (unsigned)(i / pairs.size() / 12); const FieldRef &f = g_fields[pr.first], &g = g_fields[pr.second];
        Bytes b = seed_by_name(f.seed); set_field(b, f, f.width == 4 ? BND32[v1] : BND16[v1]); set_field(b, g, g.width == 4 ? BND32[v2] : BND16[v2]); run_case(b, o); };
      fams.push_back(F);
    }
    { std::vector<size_t> f4; for(size_t x = 0; x < g_fields.size(); x++) if(g_fields[x].width == 4) f4.push_back(x);
      en::Family F; F.name = "fields_wraparound"; F.count = (uint64_t)f4.size() * 81; F.chunk = 8; F.budget_s = 60; F.describe = "every 32-bit length/offset field (" + std::to_string(f4.size()) + " fields) x {2^32-k : k=1..64} u {2^31+j : j=-8..8}: values whose aligned/added form wraps around or turns negative as a signed skip";
      F.run = [f4](uint64_t i, en::CaseOut &o) { const FieldRef &f = g_fields[f4[(size_t)(i % f4.size())]]; unsigned vi = (unsigned)(i / f4.size()); uint32_t v = vi < 64 ? (uint32_t)(0u - (vi + 1)) : (uint32_t)(0x80000000u + (uint32_t)((int)vi - 64 - 8));
        Bytes b = seed_by_name(f.seed); set_field(b, f, v); char t[64]; snprintf(t, sizeof t, " = 0x%08X", v); if(i % 97 == 0) o.sample = f.name + t; run_case(b, o); };
      fams.push_back(F); }
    { en::Family F; F.name = "reload_over_playing"; F.count = (uint64_t)g_seeds.size() * g_seeds.size() * 3 * 2; F.chunk = 4; F.budget_s = 60; F.describe = "second load over a song that is already loaded and has played: every ordered pair of seeds (10 x 10) x second input {as is, cut at 60 %, cut inside the last event} x {first song at start, first song played 0.5 s}; canonical follow-ups after the second load whether it was accepted or rejected";
      F.run = [](uint64_t i, en::CaseOut &o) { size_t n = g_seeds.size(); size_t a = (size_t)(i % n), b2 = (size_t)((i / n) % n); unsigned cut = (unsigned)((i / n / n) % 3), played = (unsigned)(i / n / n / 3);
        Loaded L; if(!load(L, g_seeds[a].second, o)) { o.nontrivial = false; } OPN2_MIDIPlayer *d = L.I.dev; static short buf[44100]; if(played) opn2_play(d, 44100, buf);
        Bytes b = g_seeds[b2].second; if(cut == 1) b.resize(b.size() * 6 / 10); else if(cut == 2 && b.size() > 2) b.resize(b.size() - 2);
        if(i % 37 == 0) o.sample = g_seeds[a].first + (played ? " played, then " : ", then ") + g_seeds[b2].first + (cut == 1 ? " cut at 60 %" : cut == 2 ? " minus 2 bytes" : "");
        int rc = opn2_openData(d, b.data(), (unsigned long)b.size()); if(rc != 0 && rc != -1) o.fail("C01/undefined-return", "second opn2_openData returned " + std::to_string(rc));
        uint64_t tags = 0; for(int f : CANON) followup(d, f, tags); o.tags |= tags; };
      fams.push_back(F); }
    { // loop markers of both kinds (global loopStart/loopEnd, stacked loopstart=N/loopend=N) on two tracks, played with looping enabled before the file is loaded
      static const char *LM[] = {"loopStart", "loopEnd", "loopstart=1", "loopstart=0", "loopend=1", "loopend="}; static const uint32_t LD[] = {0, 100}; const uint64_t SYM = 6 * 2 + 2;   // + note-on / note-off (delta 100)
      static uint64_t per; per = 1 + SYM + SYM * SYM; 
      en::Family F; F.name = "loop_marker_rows"; F.count = per * per * 2; F.chunk = 16; F.budget_s = 60; F.describe = "format-1 files with 2 tracks of up to 2 items each over {loopStart, loopEnd, loopstart=1, loopstart=0, loopend=1, loopend=} x delta {0,100} + note on/off, all " + std::to_string(per * per) + " combinations x looping {enabled before loading with count 2, enabled before loading endless}; 8 s of opn2_play, seeks, rewind, then the canonical follow-ups";
      F.run = [SYM](uint64_t i, en::CaseOut &o) { uint64_t r = i; std::vector<Bytes> tr; std::string desc;
        for(int k = 0; k < 2; k++) { uint64_t x = r % per; r /= per; std::vector<uint64_t> it; if(x >= 1 + SYM) { x -= 1 + SYM; it = {x % SYM, x / SYM}; } else if(x >= 1) it = {x - 1};
            gm::Track t; desc += " | T" + std::to_string(k) + ":"; for(uint64_t y : it) { if(y < 12) { t.meta(LD[y % 2], 0x06, LM[y / 2]); desc += std::string(" +") + std::to_string(LD[y % 2]) + " " + LM[y / 2]; } else if(y == 12) { t.ev(100, {(uint8_t)(0x90 | k), 60, 100}); desc += " +100 on"; } else { t.ev(100, {(uint8_t)(0x80 | k), 60, 0}); desc += " +100 off"; } }
            t.eot(0); tr.push_back(t.d); }
        int mode = (int)(r % 2); Bytes b = gm::smf(1, 96, tr); o.input_hex = vu::hex(b.data(), std::min<size_t>(b.size(), 400)); if(i % 4099 == 1) o.sample = desc + (mode ? " (endless)" : " (count 2)");
        Loaded L; L.I.create(44100); L.I.tap.logging = false; OPN2_MIDIPlayer *d = L.I.dev; opn2_setNumChips(d, 1); opn2_openBankData(d, g_bank.data(), (long)g_bank.size()); opn2_setLoopEnabled(d, 1); opn2_setLoopCount(d, mode ? -1 : 2); mt::reset();
        int rc = opn2_openData(d, b.data(), (unsigned long)b.size()); if(rc == 0) { o.tags |= 1ull << T_LOADED; o.nontrivial = true; } else o.tags |= 1ull << T_REJECTED;
        static short buf[88200]; uint64_t tags = 0; for(int k = 0; k < 4; k++) opn2_play(d, 88200, buf); followup(d, FU_SEEKMID, tags); opn2_play(d, 88200, buf); followup(d, FU_REWIND, tags); opn2_play(d, 44100, buf);
        for(int f : CANON) followup(d, f, tags); o.tags |= tags; check_heap(b.size(), o, "playback"); };
      fams.push_back(F); }
    { // many MIDI output devices: every new FF 09 device name adds 16 MIDI channels to the synthesizer
      static const int NN[] = {1, 2, 3, 8, 15, 16, 17, 18, 31, 32, 33, 64, 100};
      en::Family F; F.name = "device_names"; F.count = 13 * 3; F.chunk = 1; F.budget_s = 60; F.describe = "SMF with k distinct device-switch names (FF 09), k in {1,2,3,8,15,16,17,18,31,32,33,64,100}, each followed by a note on that device; x {one track, one track per device, names repeated twice}; canonical follow-ups (play, seeks, rewind, panic via song switching)";
      F.run = [](uint64_t i, en::CaseOut &o) { int k = NN[i % 13], mode = (int)(i / 13); std::vector<Bytes> tr; gm::Track t;
        for(int rep = 0; rep < (mode == 2 ? 2 : 1); rep++) for(int n = 0; n < k; n++) { char nm[16]; snprintf(nm, sizeof nm, "dev%d", n); t.meta(rep || n ? 5 : 0, 0x09, nm); t.ev(0, {0x90, (uint8_t)(40 + n % 40), 100}); t.ev(5, {0x80, (uint8_t)(40 + n % 40), 0}); if(mode == 1) { t.eot(0); tr.push_back(t.d); t = gm::Track(); } }
        if(mode != 1) { t.eot(0); tr.push_back(t.d); }
        Bytes b = gm::smf(mode == 1 ? 1 : 0, 96, tr); o.sample = std::to_string(k) + " device name(s), " + (mode == 0 ? "one track" : mode == 1 ? "one track per device" : "each name twice"); run_case(b, o); uint64_t tg = 0; (void)tg; };
      fams.push_back(F); }
    { // tick schedules against a zero-time stack loop: whatever step the caller feeds, Tick() must come back (its guard against zero-delay storms has to count every turn of its loop)
      static const double GR[] = {0.01, 0.001, 0.1}; static const int GAP[] = {1, 10, 96};
      en::Family F; F.name = "zero_time_loop_tick_steps"; F.count = 3 * 3 * 2 * 101; F.chunk = 4; F.budget_s = 10; F.describe = "SMF {noteOn, +96 ticks: tempo 0 and 'loopstart=0', +{1,10,96} ticks: 'loopend=0'} (a stack loop that takes no song time, repeated for ever) with looping {on, off}: opn2_tickEvents(0, g) followed by opn2_tickEvents(x, g) for every x = 0.4500 .. 0.5500 in steps of 0.001 and g in {0.01, 0.001, 0.1}, then 50 more ticks and the canonical follow-ups";
      F.run = [](uint64_t i, en::CaseOut &o) { uint64_t r = i; int xi = (int)(r % 101); r /= 101; bool loop = r % 2; r /= 2; double g = GR[r % 3]; r /= 3; int gap = GAP[r % 3];
        gm::Track t; t.ev(0, {0x90, 60, 100}); t.tempo(96, 0); t.meta(0, 0x06, "loopstart=0"); t.meta((uint32_t)gap, 0x06, "loopend=0"); t.ev(96, {0x80, 60, 0}); t.eot(0); Bytes b = gm::smf(0, 96, {t.d});
        o.input_hex = vu::hex(b.data(), b.size()); Loaded L; load(L, b, o); if(o.bad) return; OPN2_MIDIPlayer *d = L.I.dev; opn2_setLoopEnabled(d, loop ? 1 : 0);
        double x = 0.45 + 0.001 * xi; opn2_tickEvents(d, 0.0, g); opn2_tickEvents(d, x, g); for(int k = 0; k < 50; k++) opn2_tickEvents(d, g, g);
        uint64_t tags = 0; for(int f : CANON) followup(d, f, tags); o.tags |= tags; char w[120]; snprintf(w, sizeof w, "loop %d, gap %d ticks, granularity %g, second tick %.4f s", (int)loop, gap, g, x); if(i % 131 == 0) o.sample = w; };
      fams.push_back(F); }
    { en::Family F; F.name = "followups_depth2"; F.count = (uint64_t)g_seeds.size() * FU_COUNT * FU_COUNT * 4; F.chunk = 16; F.budget_s = 60; F.describe = "every ordered pair of follow-up calls (19 x 19) on every freshly loaded seed, with song pre-selection {none, -1, 1, 99} before loading";
      F.run = [](uint64_t i, en::CaseOut &o) { size_t s = (size_t)(i % g_seeds.size()); int f1 = (int)((i / g_seeds.size()) % FU_COUNT), f2 = (int)((i / g_seeds.size() / FU_COUNT) % FU_COUNT); int ps = (int)(i / g_seeds.size() / FU_COUNT / FU_COUNT);
        static const int PS[] = {-2, -1, 1, 99}; if(i % 1201 == 0) o.sample = g_seeds[s].first + ": preselect " + std::to_string(PS[ps]) + "; " + FU_NAME[f1] + "; " + FU_NAME[f2];
        run_case(g_seeds[s].second, o, false, f1, f2, PS[ps]); };
      fams.push_back(F); }
    { en::Family F; F.name = "varlen_extremes"; F.count = 5 * 12 * 3 * 3 * 2; F.chunk = 16; F.budget_s = 30; F.describe = "variable-length quantities of 1..12 bytes (continuation byte {FF,81,80} x final byte {7F,00,01}) as delta time, meta length, SysEx length and XMI/MUS delay, with and without payload behind them";
      F.run = [](uint64_t i, en::CaseOut &o) { int where = (int)(i % 5), k = 1 + (int)((i / 5) % 12), c = (int)((i / 60) % 3), l = (int)((i / 180) % 3), pay = (int)(i / 540);
        static const uint8_t CB[] = {0xFF, 0x81, 0x80}, LB[] = {0x7F, 0x00, 0x01}; Bytes vl; for(int q = 0; q + 1 < k; q++) vl.push_back(CB[c]); vl.push_back(LB[l]);
        Bytes b;
        if(where == 0) { gm::Track t; t.ev(0, {0x90, 60, 100}); gm::append(t.d, vl); t.raw({0x80, 60, 0}); if(pay) t.eot(0); b = gm::smf(0, 96, {t.d}); }
        else if(where == 1) { gm::Track t; t.raw({0x00, 0xFF, 0x01}); gm::append(t.d, vl); if(pay) { for(int q = 0; q < 40; q++) t.d.push_back('a'); t.eot(0); } b = gm::smf(0, 96, {t.d}); }
        else if(where == 2) { gm::Track t; t.raw({0x00, 0xF0}); gm::append(t.d, vl); if(pay) { for(int q = 0; q < 40; q++) t.d.push_back(0x11); t.d.push_back(0xF7); t.eot(0); } b = gm::smf(0, 96, {t.d}); }
        else if(where == 4) { Bytes sc = {0x90, 0xBC, 0x70}; gm::append(sc, vl); if(pay) { sc.push_back(0x00); sc.push_back(0x3C); } sc.push_back(0x60); b = gm::mus(sc, 1, 1); }
        else { gm::XmiSong x; x.evnt = {0x90, 60, 100}; gm::append(x.evnt, vl); x.evnt.push_back(0xFF); x.evnt.push_back(0x01); gm::append(x.evnt, vl); if(pay) { for(int q = 0; q < 40; q++) x.evnt.push_back('z'); x.evnt.push_back(0xFF); x.evnt.push_back(0x2F); x.evnt.push_back(0); } b = gm::xmi({x}); }
        o.sample = std::string(where == 0 ? "delta" : where == 1 ? "meta length" : where == 2 ? "sysex length" : where == 4 ? "MUS delay" : "xmi duration+meta length") + " varlen " + vu::hex(vl);
        run_case(b, o); };
      fams.push_back(F); }
    { static const size_t SZ[] = {1024, 4096, 16384, 65536};
      en::Family F; F.name = "scaling"; F.count = 7 * 4; F.chunk = 1; F.budget_s = 120; F.describe = "7 adversarial patterns (zero-delta storm in a loop, nested stack loops, maximal deltas, maximal XMI durations, MUS long delays, many tracks, many titles) at 1, 4, 16, 64 KiB with the canonical follow-ups; CPU and heap budgets linear in the size";
      F.run = [](uint64_t i, en::CaseOut &o) { int p = (int)(i % 7); size_t sz = SZ[i / 7]; Bytes b = scaling_input(p, sz); double t0 = vu::cpu_s(); run_case(b, o); double dt = vu::cpu_s() - t0;
        o.sample = "pattern " + std::to_string(p) + " size " + std::to_string(b.size()) + ": cpu " + std::to_string(dt) + " s, peak heap " + std::to_string((unsigned long long)mt::peak_bytes); o.input_hex = o.input_hex.substr(0, 64);
        double budget = 3.0 + 0.0006 * (double)b.size() * 20;   // generous: separates linear from quadratic/hang (sanitizer build)
        if(!o.bad && dt > budget) o.fail("C01/time-not-proportional", o.sample); };
      fams.push_back(F); }
    return en::run_main(argc, argv, "C01", fams, TAGS, "non-trivial: opn2_openData accepted the input (the follow-up calls then ran on it)");
}
