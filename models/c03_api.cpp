// C03 — any sequence of API calls on a live instance is memory-safe and terminates (E1, mcx).
// Every exported function with boundary-valued arguments; oracle = sanitizer / signals / uncaught
// exceptions / CPU budget per call + the table "documented to fail => returns its error value".
#include "memtrack.hpp"
#include "player.hpp"
#include "mcx_main.hpp"
#include "gen_music.hpp"
#include <climits>
#include <functional>
#include <cmath>

namespace {

static std::vector<uint8_t> g_bank, g_trunc, g_garbage, g_smf, g_xmi, g_mus, g_rsxx;
static void hk_raw(void *, OPN2_UInt8, OPN2_UInt8, OPN2_UInt8, const OPN2_UInt8 *, size_t) {}
static void hk_note(void *, int, int, int, int, double) {}
static void hk_dbg(void *, const char *, ...) {}
static void hk_loop(void *) {}

struct Inst { pl::Instance in; bool closed = false; bool have_bank = false; OPN2_Bank bank; std::set<int> refbanks; };
typedef std::function<void(Inst &, mcx::Verdict &)> Fn;
struct Op { std::string name; Fn fn; bool thorough_only; };

static std::set<std::string> g_called;
static std::string g_label = "C03";   // exported functions the op table reaches

struct C03Model : mcx::Model {
    std::vector<Op> ops; std::vector<std::string> starts; bool thorough = false;
    std::string subset;
    bool in_subset(const std::string &n) const {
        if(subset.empty()) return true;
        if(subset == "rtbig") {   // out-of-range real-time values + what makes them matter (volume models, a normal note, time)
            static const char *keep[] = {"rt_noteOn(0,60,127)", "rt_noteOn(9,60,127)", "rt_noteOn(0,127,255)", "rt_noteOn(16,60,127)", "rt_noteOn(255,255,255)", "rt_noteOff(0,60)", "rt_noteOff(16,60)", "rt_noteAfterTouch(0,255,255)", "rt_noteAfterTouch(16,128,255)", "rt_channelAfterTouch(255,255)",
                "rt_controllerChange(0,7,255)", "rt_controllerChange(0,11,255)", "rt_controllerChange(0,10,255)", "rt_controllerChange(0,74,255)", "rt_controllerChange(0,1,255)", "rt_controllerChange(0,5,255)", "rt_controllerChange(0,37,255)", "rt_controllerChange(0,65,255)", "rt_controllerChange(0,64,255)", "rt_controllerChange(0,66,255)", "rt_controllerChange(0,6,255)", "rt_controllerChange(0,38,255)", "rt_controllerChange(0,101,0)", "rt_controllerChange(0,100,0)", "rt_controllerChange(0,99,255)", "rt_controllerChange(0,98,255)", "rt_controllerChange(0,0,255)", "rt_controllerChange(0,32,255)", "rt_controllerChange(16,7,255)", "rt_controllerChange(255,121,255)",
                "rt_patchChange(0,255)", "rt_patchChange(16,128)", "rt_pitchBend(0,65535)", "rt_pitchBend(0,16384)", "rt_pitchBendML(16,255,255)", "rt_bankChangeLSB(0,255)", "rt_bankChangeMSB(0,255)", "rt_bankChange(16,-1)", "rt_bankChange(16,32639)",
                "setVolumeRangeModel(3)", "setVolumeRangeModel(5)", "setVolumeRangeModel(1)", "setLogarithmicVolumes(1)", "setScaleModulators(1)", "setFullRangeBrightness(1)", "setAutoArpeggio(1)", "setSoftPanEnabled(1)", "generate(1024)", "generate(4096)", "panic()", "rt_resetState()", "setChipType(1)", "setNumChips(2)"};
            for(const char *k : keep) if(n == k) return true;
            if(n.rfind("rt_systemExclusive(f07f7f0401", 0) == 0) return true;
            return false;
        }
        if(subset == "banks") return n.rfind("bank:", 0) == 0;   // bank create/remove/lookup histories on ids that share hash buckets, against a set model
        if(subset == "cores") {   // what the real emulator cores see: creation, configuration, register streams, rendering
            if(n.rfind("switchEmulator(", 0) == 0 && n != "switchEmulator(32)" && n != "switchEmulator(33)" && n != "switchEmulator(64)") return true;
            static const char *keep[] = {"setRunAtPcmRate(1)", "setRunAtPcmRate(0)", "setChipType(0)", "setChipType(1)", "setChipType(2)", "setNumChips(1)", "setNumChips(2)", "setNumChips(100)", "rt_noteOn(0,60,127)", "rt_noteOn(9,60,127)", "rt_noteOn(255,255,255)", "rt_noteOff(0,60)",
                "rt_controllerChange(0,7,255)", "rt_controllerChange(0,10,0)", "rt_pitchBend(0,65535)", "setSoftPanEnabled(1)", "setLfoEnabled(1)", "setLfoFrequency(255)", "generate(2)", "generate(1024)", "generate(1026)", "generate(4096)", "play(1024)", "generateFormat(1026,type=2,container=4)", "playFormat(1026,type=3,container=8)",
                "reset()", "openData(smf)", "openData(rsxx)", "panic()", "openBankData(valid)", "init+close(second instance)", "close()"};
            for(const char *k : keep) if(n == k) return true;
            return false;
        }
        return true;
    }
    void add(const std::string &n, Fn f, bool th = false) { if(th && !thorough) return; if(!in_subset(n)) { size_t p = n.find('('); g_called.insert("opn2_" + n.substr(0, p)); return; } Op o; o.name = n; o.fn = f; o.thorough_only = th; ops.push_back(o); size_t p = n.find('('); g_called.insert("opn2_" + n.substr(0, p)); }
    static void expect_fail(mcx::Verdict &v, const std::string &n, long rc) { if(rc >= 0) v.fail("C03/documented-failure-succeeded/" + n.substr(0, n.find('(')), n + " is documented to fail but returned " + std::to_string(rc)); }
    static void expect_zero(mcx::Verdict &v, const std::string &n, long rc) { if(rc != 0) v.fail("C03/documented-zero/" + n.substr(0, n.find('(')), n + " must return 0 but returned " + std::to_string(rc)); }

    void build() {
        std::string nm; char b[128];
#define D I.in.dev
        // ---- setup ------------------------------------------------------------------------------------
        for(int v : {INT_MIN, -1, 0, 1, 2, 100, 101, INT_MAX}) { snprintf(b, sizeof b, "setNumChips(%d)", v); nm = b; bool bad = v < 1 || v > 100; add(nm, [v, bad, nm](Inst &I, mcx::Verdict &vd) { int rc = opn2_setNumChips(D, v); if(bad) expect_fail(vd, nm, rc); }); }
        for(int v : {-1, 0, 1, 2, 3, 4, 5, 6, 7, 8, 9, 31, 32, 33, 64, INT_MAX, INT_MIN}) { snprintf(b, sizeof b, "switchEmulator(%d)", v); nm = b; bool bad = v < 0 || v > 8; add(nm, [v, bad, nm](Inst &I, mcx::Verdict &vd) { int rc = opn2_switchEmulator(D, v); if(bad) expect_fail(vd, nm, rc); }); }
        for(int v : {0, 1, -1}) { snprintf(b, sizeof b, "setRunAtPcmRate(%d)", v); add(b, [v](Inst &I, mcx::Verdict &) { opn2_setRunAtPcmRate(D, v); }); }
        for(unsigned v : {0u, 15u, 16u, 255u, UINT_MAX}) { snprintf(b, sizeof b, "setDeviceIdentifier(%u)", v); nm = b; bool bad = v > 15; add(nm, [v, bad, nm](Inst &I, mcx::Verdict &vd) { int rc = opn2_setDeviceIdentifier(D, v); if(bad) expect_fail(vd, nm, rc); }); }
        for(int v : {-1, 0, 1, 2, INT_MIN}) { snprintf(b, sizeof b, "setLfoEnabled(%d)", v); add(b, [v](Inst &I, mcx::Verdict &) { opn2_setLfoEnabled(D, v); }); }
        for(int v : {-1, 0, 7, 8, 255, INT_MAX}) { snprintf(b, sizeof b, "setLfoFrequency(%d)", v); add(b, [v](Inst &I, mcx::Verdict &) { opn2_setLfoFrequency(D, v); }); }
        for(int v : {-1, 0, 1, 2, INT_MAX, INT_MIN}) { snprintf(b, sizeof b, "setChipType(%d)", v); add(b, [v](Inst &I, mcx::Verdict &) { opn2_setChipType(D, v); }); }
        for(int v : {0, 1, -1}) { snprintf(b, sizeof b, "setScaleModulators(%d)", v); add(b, [v](Inst &I, mcx::Verdict &) { opn2_setScaleModulators(D, v); }); }
        add("setFullRangeBrightness(1)", [](Inst &I, mcx::Verdict &) { opn2_setFullRangeBrightness(D, 1); });
        add("setAutoArpeggio(1)", [](Inst &I, mcx::Verdict &) { opn2_setAutoArpeggio(D, 1); });
        add("setSoftPanEnabled(1)", [](Inst &I, mcx::Verdict &) { opn2_setSoftPanEnabled(D, 1); });
        for(int v : {0, 1}) { snprintf(b, sizeof b, "setLogarithmicVolumes(%d)", v); add(b, [v](Inst &I, mcx::Verdict &) { opn2_setLogarithmicVolumes(D, v); }); }
        for(int v : {-1, 0, 1, 3, 5, 6, INT_MAX, INT_MIN}) { snprintf(b, sizeof b, "setVolumeRangeModel(%d)", v); add(b, [v](Inst &I, mcx::Verdict &) { opn2_setVolumeRangeModel(D, v); }); }
        for(int v : {-2, -1, 0, 2, 3, INT_MAX}) { snprintf(b, sizeof b, "setChannelAllocMode(%d)", v); add(b, [v](Inst &I, mcx::Verdict &) { opn2_setChannelAllocMode(D, v); }); }
        add("setLoopEnabled(1)", [](Inst &I, mcx::Verdict &) { opn2_setLoopEnabled(D, 1); });
        for(int v : {-1, 0, 1, INT_MAX, INT_MIN}) { snprintf(b, sizeof b, "setLoopCount(%d)", v); add(b, [v](Inst &I, mcx::Verdict &) { opn2_setLoopCount(D, v); }); }
        add("setLoopHooksOnly(1)", [](Inst &I, mcx::Verdict &) { opn2_setLoopHooksOnly(D, 1); });
        add("getters()", [](Inst &I, mcx::Verdict &) { volatile long s = 0; s += opn2_getNumChips(D) + opn2_getNumChipsObtained(D) + opn2_getLfoEnabled(D) + opn2_getLfoFrequency(D) + opn2_getChipType(D) + opn2_getAutoArpeggio(D) + opn2_getChannelAllocMode(D) + opn2_getVolumeRangeModel(D) + opn2_getSongsCount(D);
            s += (long)strlen(opn2_chipEmulatorName(D)) + (long)strlen(opn2_emulatorName()) + (long)strlen(opn2_linkedLibraryVersion()) + opn2_linkedVersion()->major + (long)strlen(opn2_errorString()) + (long)strlen(opn2_errorInfo(D)) + opn2_atEnd(D) + (long)opn2_trackCount(D);
            s += (long)opn2_totalTimeLength(D) + (long)opn2_loopStartTime(D) + (long)opn2_loopEndTime(D) + (long)opn2_positionTell(D); (void)s; });
        g_called.insert("opn2_getNumChips"); for(const char *f : {"getNumChipsObtained", "getLfoEnabled", "getLfoFrequency", "getChipType", "getAutoArpeggio", "getChannelAllocMode", "getVolumeRangeModel", "getSongsCount", "chipEmulatorName", "emulatorName", "linkedLibraryVersion", "linkedVersion", "errorString", "errorInfo", "atEnd", "trackCount", "totalTimeLength", "loopStartTime", "loopEndTime", "positionTell"}) g_called.insert(std::string("opn2_") + f);
        // ---- bank API -------------------------------------------------------------------------------------
        for(unsigned v : {0u, 1u, 1000u}) { snprintf(b, sizeof b, "reserveBanks(%u)", v); add(b, [v](Inst &I, mcx::Verdict &) { opn2_reserveBanks(D, v); }); }
        struct GB { int perc, msb, lsb, flags; bool bad; };
        for(GB g : {GB{0, 0, 0, 0, false}, GB{0, 1, 2, OPNMIDI_Bank_Create, false}, GB{1, 0, 0, OPNMIDI_Bank_CreateRt, false}, GB{0, 127, 127, OPNMIDI_Bank_Create, false}, GB{0, 0, 128, OPNMIDI_Bank_Create, true}, GB{0, 128, 0, OPNMIDI_Bank_Create, true}, GB{2, 0, 0, OPNMIDI_Bank_Create, true}, GB{255, 255, 255, 0, true}, GB{0, 0, 0, -1, false}}) {
            snprintf(b, sizeof b, "getBank(%d/%d/%d,flags=%d)", g.perc, g.msb, g.lsb, g.flags); nm = b;
            add(nm, [g, nm](Inst &I, mcx::Verdict &vd) { OPN2_BankId id; id.percussive = (OPN2_UInt8)g.perc; id.msb = (OPN2_UInt8)g.msb; id.lsb = (OPN2_UInt8)g.lsb; OPN2_Bank bk; int rc = opn2_getBank(D, &id, g.flags, &bk); if(g.bad) expect_fail(vd, nm, rc); if(rc == 0) { I.bank = bk; I.have_bank = true; } }); }
        if(subset == "banks") {
            // ids chosen to collide in the bank map's hash buckets: melodic 0:0 / percussive 0:0 (bucket 0), melodic 0:1 / 2:1 / 4:1 (bucket 1)
            struct BId { int perc, msb, lsb; }; static const BId U[] = {{0, 0, 0}, {1, 0, 0}, {0, 0, 1}, {0, 2, 1}, {0, 4, 1}}; const int NU = 5;
            auto audit = [](Inst &I, mcx::Verdict &vd, const std::string &after) {
                char t[200];
                for(int u = 0; u < NU; u++) { OPN2_BankId id; id.percussive = (OPN2_UInt8)U[u].perc; id.msb = (OPN2_UInt8)U[u].msb; id.lsb = (OPN2_UInt8)U[u].lsb; OPN2_Bank bk; int rc = opn2_getBank(D, &id, 0, &bk); bool want = I.refbanks.count(u) != 0;
                    if(want && rc != 0) { snprintf(t, sizeof t, "after %s: opn2_getBank(find %d/%d/%d) = %d for a bank that exists", after.c_str(), U[u].perc, U[u].msb, U[u].lsb, rc); vd.fail(g_label + "/bank/existing-bank-not-found", t); return; }
                    if(!want && rc >= 0) { snprintf(t, sizeof t, "after %s: opn2_getBank(find %d/%d/%d) = %d for a bank that does not exist (documented to fail with a negative value)", after.c_str(), U[u].perc, U[u].msb, U[u].lsb, rc); vd.fail(g_label + "/bank/lookup-of-absent-bank-succeeded", t); return; } }
                OPN2_Bank it; size_t n = 0; if(opn2_getFirstBank(D, &it) == 0) { n = 1; while(opn2_getNextBank(D, &it) == 0 && n < 5000) n++; }
                if(n >= 5000) { vd.fail(g_label + "/bank/enumeration-does-not-end", "after " + after + ": opn2_getNextBank still delivers banks after 5000 steps"); return; }
                if(n != I.refbanks.size()) { snprintf(t, sizeof t, "after %s: enumeration visits %zu bank(s), %zu exist", after.c_str(), n, I.refbanks.size()); vd.fail(g_label + "/bank/enumeration-count", t); return; } };
            for(int u = 0; u < NU; u++) {
                snprintf(b, sizeof b, "bank:create(%d/%d/%d)", U[u].perc, U[u].msb, U[u].lsb); nm = b;
                add(nm, [u, nm, audit](Inst &I, mcx::Verdict &vd) { OPN2_BankId id; id.percussive = (OPN2_UInt8)U[u].perc; id.msb = (OPN2_UInt8)U[u].msb; id.lsb = (OPN2_UInt8)U[u].lsb; OPN2_Bank bk; int rc = opn2_getBank(D, &id, OPNMIDI_Bank_Create, &bk); if(rc != 0) { vd.fail(g_label + "/bank/create-failed", nm + " returned " + std::to_string(rc)); return; } I.refbanks.insert(u); audit(I, vd, nm); });
                snprintf(b, sizeof b, "bank:remove(%d/%d/%d)", U[u].perc, U[u].msb, U[u].lsb); nm = b;
                add(nm, [u, nm, audit](Inst &I, mcx::Verdict &vd) { OPN2_BankId id; id.percussive = (OPN2_UInt8)U[u].perc; id.msb = (OPN2_UInt8)U[u].msb; id.lsb = (OPN2_UInt8)U[u].lsb; OPN2_Bank bk; int rc = opn2_getBank(D, &id, 0, &bk); if(rc == 0) { opn2_removeBank(D, &bk); I.refbanks.erase(u); } audit(I, vd, nm); });
            }
            add("bank:reserveBanks(8)", [audit](Inst &I, mcx::Verdict &vd) { opn2_reserveBanks(D, 8); audit(I, vd, "reserveBanks(8)"); });
            // a note on a channel whose bank select points into the colliding buckets (present and absent ids): the lookup must come back
            struct PB { int msb, lsb; }; for(PB pb : {PB{0, 0}, PB{0, 1}, PB{2, 1}, PB{6, 1}, PB{1, 0}}) { snprintf(b, sizeof b, "bank:play(bank %d/%d)", pb.msb, pb.lsb); nm = b;
                add(nm, [pb, nm, audit](Inst &I, mcx::Verdict &vd) { opn2_rt_bankChange(D, 0, (OPN2_SInt16)(pb.msb * 256 + pb.lsb)); opn2_rt_noteOn(D, 0, 60, 100); opn2_rt_noteOff(D, 0, 60); opn2_rt_noteOn(D, 9, 60, 100); opn2_rt_noteOff(D, 9, 60); audit(I, vd, nm); }); }
        }
        add("getFirstBank()", [](Inst &I, mcx::Verdict &) { OPN2_Bank bk; if(opn2_getFirstBank(D, &bk) == 0) { I.bank = bk; I.have_bank = true; } });
        add("getNextBank(handle)", [](Inst &I, mcx::Verdict &) { if(!I.have_bank) return; OPN2_Bank bk = I.bank; if(opn2_getNextBank(D, &bk) == 0) I.bank = bk; });
        add("getBankId(handle)", [](Inst &I, mcx::Verdict &) { if(!I.have_bank) return; OPN2_BankId id; opn2_getBankId(D, &I.bank, &id); });
        add("removeBank(handle)", [](Inst &I, mcx::Verdict &) { if(!I.have_bank) return; opn2_removeBank(D, &I.bank); I.have_bank = false; });
        for(unsigned idx : {0u, 127u, 128u, UINT_MAX}) {
            snprintf(b, sizeof b, "getInstrument(handle,%u)", idx); nm = b; add(nm, [idx, nm](Inst &I, mcx::Verdict &vd) { if(!I.have_bank) return; OPN2_Instrument ins; int rc = opn2_getInstrument(D, &I.bank, idx, &ins); if(idx > 127) expect_fail(vd, nm, rc); });
            snprintf(b, sizeof b, "setInstrument(handle,%u)", idx); nm = b; add(nm, [idx, nm](Inst &I, mcx::Verdict &vd) { if(!I.have_bank) return; OPN2_Instrument ins; memset(&ins, 0xFF, sizeof ins); ins.version = 0; int rc = opn2_setInstrument(D, &I.bank, idx, &ins); if(idx > 127) expect_fail(vd, nm, rc); }); }
        add("setInstrument(handle,0,version=7)", [](Inst &I, mcx::Verdict &vd) { if(!I.have_bank) return; OPN2_Instrument ins; memset(&ins, 0, sizeof ins); ins.version = 7; expect_fail(vd, "setInstrument(version=7)", opn2_setInstrument(D, &I.bank, 0, &ins)); });
        add("openBankData(valid)", [](Inst &I, mcx::Verdict &) { uint8_t *m = (uint8_t *)malloc(g_bank.size()); memcpy(m, g_bank.data(), g_bank.size()); opn2_openBankData(D, m, (long)g_bank.size()); free(m); I.have_bank = false; });
        add("openBankData(truncated)", [](Inst &I, mcx::Verdict &vd) { uint8_t *m = (uint8_t *)malloc(g_trunc.size()); memcpy(m, g_trunc.data(), g_trunc.size()); expect_fail(vd, "openBankData(truncated)", opn2_openBankData(D, m, (long)g_trunc.size())); free(m); });
        add("openBankData(size 0)", [](Inst &I, mcx::Verdict &vd) { uint8_t *m = (uint8_t *)malloc(1); expect_fail(vd, "openBankData(size 0)", opn2_openBankData(D, m, 0)); free(m); });
        add("openBankFile(missing)", [](Inst &I, mcx::Verdict &vd) { expect_fail(vd, "openBankFile(missing)", opn2_openBankFile(D, "/nonexistent/opnverif.wopn")); });
        add("openFile(missing)", [](Inst &I, mcx::Verdict &vd) { expect_fail(vd, "openFile(missing)", opn2_openFile(D, "/nonexistent/opnverif.mid")); });
        // ---- real-time MIDI ---------------------------------------------------------------------------------
        for(int ch : {0, 9, 16, 255}) for(int note : {60, 127, 255}) for(int vel : {0, 127, 255}) { if(!thorough && ch == 9 && note != 60) continue; snprintf(b, sizeof b, "rt_noteOn(%d,%d,%d)", ch, note, vel); add(b, [ch, note, vel](Inst &I, mcx::Verdict &) { opn2_rt_noteOn(D, (OPN2_UInt8)ch, (OPN2_UInt8)note, (OPN2_UInt8)vel); }); }
        for(int ch : {0, 9, 16, 17, 255}) for(int note : {60, 255}) { snprintf(b, sizeof b, "rt_noteOff(%d,%d)", ch, note); add(b, [ch, note](Inst &I, mcx::Verdict &) { opn2_rt_noteOff(D, (OPN2_UInt8)ch, (OPN2_UInt8)note); }); }
        for(int ch : {0, 16, 255}) for(int note : {60, 128, 255}) { snprintf(b, sizeof b, "rt_noteAfterTouch(%d,%d,255)", ch, note); add(b, [ch, note](Inst &I, mcx::Verdict &) { opn2_rt_noteAfterTouch(D, (OPN2_UInt8)ch, (OPN2_UInt8)note, 255); }); }
        for(int ch : {0, 16, 255}) { snprintf(b, sizeof b, "rt_channelAfterTouch(%d,255)", ch); add(b, [ch](Inst &I, mcx::Verdict &) { opn2_rt_channelAfterTouch(D, (OPN2_UInt8)ch, 255); }); }
        for(int type : {0, 1, 5, 6, 7, 10, 11, 32, 37, 38, 64, 65, 66, 67, 74, 98, 99, 100, 101, 120, 121, 123, 255}) for(int val : {0, 127, 128, 255}) { if(!thorough && (val == 128)) continue; snprintf(b, sizeof b, "rt_controllerChange(0,%d,%d)", type, val); add(b, [type, val](Inst &I, mcx::Verdict &) { opn2_rt_controllerChange(D, 0, (OPN2_UInt8)type, (OPN2_UInt8)val); }); }
        for(int type : {7, 64, 121, 123}) { snprintf(b, sizeof b, "rt_controllerChange(16,%d,255)", type); add(b, [type](Inst &I, mcx::Verdict &) { opn2_rt_controllerChange(D, 16, (OPN2_UInt8)type, 255); }); snprintf(b, sizeof b, "rt_controllerChange(255,%d,255)", type); add(b, [type](Inst &I, mcx::Verdict &) { opn2_rt_controllerChange(D, 255, (OPN2_UInt8)type, 255); }); }
        for(int ch : {0, 16}) for(int v : {0, 127, 128, 255}) { snprintf(b, sizeof b, "rt_patchChange(%d,%d)", ch, v); add(b, [ch, v](Inst &I, mcx::Verdict &) { opn2_rt_patchChange(D, (OPN2_UInt8)ch, (OPN2_UInt8)v); }); }
        for(int ch : {0, 16}) for(int v : {0, 8192, 16383, 16384, 65535}) { snprintf(b, sizeof b, "rt_pitchBend(%d,%d)", ch, v); add(b, [ch, v](Inst &I, mcx::Verdict &) { opn2_rt_pitchBend(D, (OPN2_UInt8)ch, (OPN2_UInt16)v); }); }
        add("rt_pitchBendML(16,255,255)", [](Inst &I, mcx::Verdict &) { opn2_rt_pitchBendML(D, 16, 255, 255); });
        for(int ch : {0, 16}) for(int v : {0, 127, 255}) { snprintf(b, sizeof b, "rt_bankChangeLSB(%d,%d)", ch, v); add(b, [ch, v](Inst &I, mcx::Verdict &) { opn2_rt_bankChangeLSB(D, (OPN2_UInt8)ch, (OPN2_UInt8)v); }); snprintf(b, sizeof b, "rt_bankChangeMSB(%d,%d)", ch, v); add(b, [ch, v](Inst &I, mcx::Verdict &) { opn2_rt_bankChangeMSB(D, (OPN2_UInt8)ch, (OPN2_UInt8)v); }); }
        for(int v : {0, 0x7F7F, -1, -32768}) { snprintf(b, sizeof b, "rt_bankChange(16,%d)", v); add(b, [v](Inst &I, mcx::Verdict &) { opn2_rt_bankChange(D, 16, (OPN2_SInt16)v); }); }
        add("rt_resetState()", [](Inst &I, mcx::Verdict &) { opn2_rt_resetState(D); });
        add("panic()", [](Inst &I, mcx::Verdict &) { opn2_panic(D); });
        { std::vector<std::vector<uint8_t>> sx = { {0xF0, 0x7E, 0x7F, 0x09, 0x01, 0xF7}, {0xF0, 0x7F, 0x7F, 0x04, 0x01, 0x00, 0x00, 0xF7}, {0xF0, 0x41, 0x10, 0x42, 0x12, 0x40, 0x00, 0x7F, 0x00, 0x41, 0xF7}, {0xF0, 0x41, 0x10, 0x42, 0x12, 0x40, 0x1F, 0x15, 0x01, 0x0B, 0xF7}, {0xF0, 0x43, 0x10, 0x4C, 0x00, 0x00, 0x7E, 0x00, 0xF7},
              {0xF0, 0xF7}, {0xF0}, {}, {0xF0, 0x41, 0x10, 0xF7}, {0xF0, 0x7F, 0x7F, 0x04, 0xF7}, {0xF0, 0x43, 0x10, 0x4C, 0xF7}, {0xF0, 0x41, 0x7F, 0x42, 0x12, 0x40, 0x1F, 0x15, 0xF7} };
          for(size_t k = 0; k < sx.size(); k++) { std::vector<uint8_t> m = sx[k]; nm = "rt_systemExclusive(" + vu::hex(m) + ")"; add(nm, [m](Inst &I, mcx::Verdict &) { uint8_t *p = (uint8_t *)malloc(m.size() ? m.size() : 1); if(m.size()) memcpy(p, m.data(), m.size()); opn2_rt_systemExclusive(D, p, m.size()); free(p); }); } }
        // ---- sequencer ----------------------------------------------------------------------------------------
        struct MF { const char *n; std::vector<uint8_t> *d; bool bad; };
        for(MF f : {MF{"smf", &g_smf, false}, MF{"xmi2songs", &g_xmi, false}, MF{"mus", &g_mus, false}, MF{"rsxx", &g_rsxx, false}, MF{"garbage", &g_garbage, true}}) { nm = std::string("openData(") + f.n + ")"; add(nm, [f, nm](Inst &I, mcx::Verdict &vd) { uint8_t *m = (uint8_t *)malloc(f.d->size()); memcpy(m, f.d->data(), f.d->size()); int rc = opn2_openData(D, m, (unsigned long)f.d->size()); free(m); if(f.bad) expect_fail(vd, nm, rc); }); }
        add("openData(size 0)", [](Inst &I, mcx::Verdict &vd) { uint8_t *m = (uint8_t *)malloc(1); expect_fail(vd, "openData(size 0)", opn2_openData(D, m, 0)); free(m); });
        for(int v : {-1, 0, 1, 99, INT_MIN}) { snprintf(b, sizeof b, "selectSongNum(%d)", v); add(b, [v](Inst &I, mcx::Verdict &) { opn2_selectSongNum(D, v); }); }
        for(double v : {-1.0, 0.0, 0.5, 1e9, (double)NAN, (double)INFINITY}) { snprintf(b, sizeof b, "positionSeek(%g)", v); add(b, [v](Inst &I, mcx::Verdict &) { opn2_positionSeek(D, v); }); }
        add("positionRewind()", [](Inst &I, mcx::Verdict &) { opn2_positionRewind(D); });
        for(double v : {0.0, -1.0, 0.5, 2.0, 1e300, 1e-300, (double)NAN, (double)INFINITY}) { snprintf(b, sizeof b, "setTempo(%g)", v); add(b, [v](Inst &I, mcx::Verdict &) { opn2_setTempo(D, v); }); }
        struct TK { double s, g; };
        for(TK t : {TK{0, 0}, TK{0.01, 0.001}, TK{-1, 0}, TK{1e9, 0}, TK{(double)NAN, (double)NAN}, TK{0.01, -1}, TK{(double)INFINITY, 1}}) { snprintf(b, sizeof b, "tickEvents(%g,%g)", t.s, t.g); add(b, [t](Inst &I, mcx::Verdict &) { opn2_tickEvents(D, t.s, t.g); }); }
        for(int n : {-4, -1, 0, 1, 2, 1024, 1026, 4096, 70000}) { bool th = n == 70000;
            snprintf(b, sizeof b, "play(%d)", n); nm = b; add(nm, [n, nm](Inst &I, mcx::Verdict &vd) { int cap = n > 0 ? n : 1; short *buf = (short *)malloc((size_t)cap * sizeof(short)); int rc = opn2_play(D, n, buf); free(buf); if(n < 0) expect_zero(vd, nm, rc); if(rc < 0 || rc > (n > 0 ? n : 0)) vd.fail("C03/return-out-of-range/play", nm + " returned " + std::to_string(rc)); }, th);
            snprintf(b, sizeof b, "generate(%d)", n); nm = b; add(nm, [n, nm](Inst &I, mcx::Verdict &vd) { int cap = n > 0 ? n : 1; short *buf = (short *)malloc((size_t)cap * sizeof(short)); int rc = opn2_generate(D, n, buf); free(buf); if(n < 0) expect_zero(vd, nm, rc); if(rc < 0 || rc > (n > 0 ? n : 0)) vd.fail("C03/return-out-of-range/generate", nm + " returned " + std::to_string(rc)); }, th); }
        struct FM { int type; unsigned c; bool sup; };
        for(FM f : {FM{OPNMIDI_SampleType_S8, 1, true}, FM{OPNMIDI_SampleType_U8, 4, true}, FM{OPNMIDI_SampleType_S16, 4, true}, FM{OPNMIDI_SampleType_U16, 2, true}, FM{OPNMIDI_SampleType_S24, 4, true}, FM{OPNMIDI_SampleType_U24, 4, true}, FM{OPNMIDI_SampleType_S32, 4, true}, FM{OPNMIDI_SampleType_U32, 4, true}, FM{OPNMIDI_SampleType_F32, 4, true}, FM{OPNMIDI_SampleType_F64, 8, true},
                    FM{OPNMIDI_SampleType_S16, 1, false}, FM{OPNMIDI_SampleType_F32, 8, false}, FM{OPNMIDI_SampleType_Count, 2, false}, FM{-1, 2, false}, FM{OPNMIDI_SampleType_S8, 0, false}, FM{OPNMIDI_SampleType_S24, 3, false}}) for(int pl_ = 0; pl_ < 2; pl_++) {
            snprintf(b, sizeof b, "%sFormat(1026,type=%d,container=%u)", pl_ ? "play" : "generate", f.type, f.c); nm = b;
            add(nm, [f, pl_, nm](Inst &I, mcx::Verdict &vd) { unsigned c = f.c ? f.c : 1; unsigned off = 2 * c + 1; size_t sz = (size_t)513 * off + c; uint8_t *buf = (uint8_t *)malloc(sz); OPNMIDI_AudioFormat fmt; fmt.type = (OPNMIDI_SampleType)f.type; fmt.containerSize = f.c; fmt.sampleOffset = off;
                int rc = pl_ ? opn2_playFormat(D, 1026, buf, buf + c, &fmt) : opn2_generateFormat(D, 1026, buf, buf + c, &fmt); free(buf); if(!f.sup) expect_zero(vd, nm, rc); }); }
        for(size_t t : {(size_t)0, (size_t)1, (size_t)-1}) for(unsigned o : {0u, 1u, 2u, 3u, 4u, UINT_MAX}) { if(!thorough && o == 4u) continue; snprintf(b, sizeof b, "setTrackOptions(%zd,%u)", (ssize_t)t, o); nm = b; add(nm, [t, o, nm](Inst &I, mcx::Verdict &vd) { size_t cnt = opn2_trackCount(D); int rc = opn2_setTrackOptions(D, t, o); if((t >= cnt && t != (size_t)-1 && (o & 3) != 0) || (t == (size_t)-1 && ((o & 3) == 1 || (o & 3) == 2))) expect_fail(vd, nm, rc); }); }
        for(size_t c : {(size_t)0, (size_t)15, (size_t)16, (size_t)-1}) for(int e : {0, 1}) { snprintf(b, sizeof b, "setChannelEnabled(%zd,%d)", (ssize_t)c, e); nm = b; add(nm, [c, e, nm](Inst &I, mcx::Verdict &vd) { int rc = opn2_setChannelEnabled(D, c, e); if(c > 15) expect_fail(vd, nm, rc); }); }
        add("metaQueries()", [](Inst &I, mcx::Verdict &) { volatile size_t s = strlen(opn2_metaMusicTitle(D)) + strlen(opn2_metaMusicCopyright(D)); size_t n = opn2_metaTrackTitleCount(D); for(size_t i : {(size_t)0, n ? n - 1 : 0, n, (size_t)-1}) s += strlen(opn2_metaTrackTitle(D, i)); size_t m = opn2_metaMarkerCount(D); for(size_t i : {(size_t)0, m ? m - 1 : 0, m, (size_t)-1}) { Opn2_MarkerEntry e = opn2_metaMarker(D, i); s += strlen(e.label); } (void)s; });
        for(const char *f : {"metaMusicTitle", "metaMusicCopyright", "metaTrackTitleCount", "metaTrackTitle", "metaMarkerCount", "metaMarker"}) g_called.insert(std::string("opn2_") + f);
        for(size_t sz : {(size_t)0, (size_t)1, (size_t)6, (size_t)13, (size_t)1000}) { snprintf(b, sizeof b, "describeChannels(size=%zu)", sz); add(b, [sz](Inst &I, mcx::Verdict &) { char *s1 = (char *)malloc(sz ? sz : 1), *s2 = (char *)malloc(sz ? sz : 1); opn2_describeChannels(D, s1, s2, sz); free(s1); free(s2); }); }
        add("setHooks(fn)", [](Inst &I, mcx::Verdict &) { opn2_setRawEventHook(D, hk_raw, NULL); opn2_setNoteHook(D, hk_note, NULL); opn2_setDebugMessageHook(D, hk_dbg, NULL); opn2_setLoopStartHook(D, hk_loop, NULL); opn2_setLoopEndHook(D, hk_loop, NULL); });
        add("setHooks(NULL)", [](Inst &I, mcx::Verdict &) { opn2_setRawEventHook(D, NULL, NULL); opn2_setNoteHook(D, NULL, NULL); opn2_setDebugMessageHook(D, NULL, NULL); opn2_setLoopStartHook(D, NULL, NULL); opn2_setLoopEndHook(D, NULL, NULL); });
        for(const char *f : {"setRawEventHook", "setNoteHook", "setDebugMessageHook", "setLoopStartHook", "setLoopEndHook"}) g_called.insert(std::string("opn2_") + f);
        add("reset()", [](Inst &I, mcx::Verdict &) { opn2_reset(D); });
        add("init+close(second instance)", [](Inst &, mcx::Verdict &) { OPN2_MIDIPlayer *x = opn2_init(8000); if(x) { opn2_setNumChips(x, 1); opn2_close(x); } OPN2_MIDIPlayer *y = opn2_init(-5); if(y) opn2_close(y); OPN2_MIDIPlayer *z = opn2_init(0); if(z) opn2_close(z); });
        g_called.insert("opn2_init");
        add("close()", [](Inst &I, mcx::Verdict &) { void *s = I.in.tap.synth; opn2_close(D); I.in.dev = NULL; pl::g_taps.erase(s); I.closed = true; });
        // every function with a NULL device
        add("allFunctions(device=NULL)", [](Inst &, mcx::Verdict &vd) { OPN2_MIDIPlayer *N = NULL; short sb[8]; OPN2_UInt8 ub[64]; OPN2_Bank bk; memset(&bk, 0, sizeof bk); OPN2_BankId id = {0, 0, 0}; OPN2_Instrument ins; memset(&ins, 0, sizeof ins); OPNMIDI_AudioFormat fmt = {OPNMIDI_SampleType_S16, 2, 4}; char t1[8], t2[8];
            long bad = 0;
            bad += opn2_setDeviceIdentifier(N, 0) >= 0; bad += opn2_setNumChips(N, 1) >= 0; bad += opn2_getNumChips(N) >= 0; bad += opn2_getNumChipsObtained(N) >= 0; bad += opn2_reserveBanks(N, 1) >= 0; bad += opn2_getBank(N, &id, 1, &bk) >= 0; bad += opn2_getBankId(N, &bk, &id) >= 0; bad += opn2_removeBank(N, &bk) >= 0;
            bad += opn2_getFirstBank(N, &bk) >= 0; bad += opn2_getNextBank(N, &bk) >= 0; bad += opn2_getInstrument(N, &bk, 0, &ins) >= 0; bad += opn2_setInstrument(N, &bk, 0, &ins) >= 0; bad += opn2_openBankFile(N, "x") >= 0; bad += opn2_openBankData(N, ub, 4) >= 0; bad += opn2_openFile(N, "x") >= 0; bad += opn2_openData(N, ub, 4) >= 0;
            bad += opn2_switchEmulator(N, 0) >= 0; bad += opn2_setRunAtPcmRate(N, 0) >= 0; bad += opn2_play(N, 4, sb) != 0; bad += opn2_generate(N, 4, sb) != 0; bad += opn2_playFormat(N, 4, ub, ub + 2, &fmt) != 0; bad += opn2_generateFormat(N, 4, ub, ub + 2, &fmt) != 0; bad += opn2_setTrackOptions(N, 0, 1) >= 0; bad += opn2_setChannelEnabled(N, 0, 1) >= 0; bad += opn2_describeChannels(N, t1, t2, 8) >= 0;
            opn2_setLfoEnabled(N, 1); opn2_getLfoEnabled(N); opn2_setLfoFrequency(N, 1); opn2_getLfoFrequency(N); opn2_setChipType(N, 0); opn2_getChipType(N); opn2_setScaleModulators(N, 1); opn2_setFullRangeBrightness(N, 1); opn2_setAutoArpeggio(N, 1); opn2_getAutoArpeggio(N); opn2_setLoopEnabled(N, 1); opn2_setLoopCount(N, 1); opn2_setLoopHooksOnly(N, 1); opn2_setSoftPanEnabled(N, 1);
            opn2_setLogarithmicVolumes(N, 1); opn2_setVolumeRangeModel(N, 1); opn2_getVolumeRangeModel(N); opn2_setChannelAllocMode(N, 0); opn2_getChannelAllocMode(N); opn2_selectSongNum(N, 0); opn2_getSongsCount(N); opn2_chipEmulatorName(N); opn2_errorInfo(N); opn2_close(N); opn2_reset(N); opn2_totalTimeLength(N); opn2_loopStartTime(N); opn2_loopEndTime(N); opn2_positionTell(N); opn2_positionSeek(N, 1); opn2_positionRewind(N); opn2_setTempo(N, 1);
            opn2_metaMusicTitle(N); opn2_metaMusicCopyright(N); opn2_metaTrackTitleCount(N); opn2_metaTrackTitle(N, 0); opn2_metaMarkerCount(N); opn2_metaMarker(N, 0); opn2_setRawEventHook(N, NULL, NULL); opn2_setNoteHook(N, NULL, NULL); opn2_setDebugMessageHook(N, NULL, NULL); opn2_setLoopStartHook(N, NULL, NULL); opn2_setLoopEndHook(N, NULL, NULL); opn2_tickEvents(N, 1, 1); opn2_atEnd(N); opn2_trackCount(N); opn2_panic(N); opn2_rt_resetState(N);
            bad += opn2_rt_noteOn(N, 0, 0, 0) != 0; opn2_rt_noteOff(N, 0, 0); opn2_rt_noteAfterTouch(N, 0, 0, 0); opn2_rt_channelAfterTouch(N, 0, 0); opn2_rt_controllerChange(N, 0, 0, 0); opn2_rt_patchChange(N, 0, 0); opn2_rt_pitchBend(N, 0, 0); opn2_rt_pitchBendML(N, 0, 0, 0); opn2_rt_bankChangeLSB(N, 0, 0); opn2_rt_bankChangeMSB(N, 0, 0); opn2_rt_bankChange(N, 0, 0); bad += opn2_rt_systemExclusive(N, ub, 4) > 0;
            if(bad) vd.fail("C03/null-device-accepted", std::to_string(bad) + " function(s) did not report an error for a NULL device"); });
        for(const char *f : {"close", "reset"}) g_called.insert(std::string("opn2_") + f);
#undef D
    }

    size_t num_ops() const override { return ops.size(); }
    std::string op_name(size_t i) const override { return ops[i].name; }
    size_t num_starts() const override { return starts.size(); }
    std::string start_name(size_t s) const override { return starts[s]; }
    void *fresh(size_t st) override {
        Inst *I = new Inst; I->in.create(44100); OPN2_MIDIPlayer *d = I->in.dev; const std::string &s = starts[st];
        if(s != "fresh") { opn2_setNumChips(d, s == "drums2chips" ? 2 : 1); opn2_openBankData(d, g_bank.data(), (long)g_bank.size()); if(subset == "banks") I->refbanks = {0, 1}; /* the loaded file holds melodic 0/0 and percussion 0/0 */ }
        static short buf[8192];
        // a start state that silently failed to load its song would make the exploration from it vacuous: hard error
        auto must = [&](int rc, const char *what) { if(rc != 0) { fprintf(stderr, "[c03] start state '%s': %s was rejected: %s\n", s.c_str(), what, opn2_errorInfo(d)); abort(); } };
        if(s == "smf-half") { must(opn2_openData(d, g_smf.data(), (unsigned long)g_smf.size()), "the SMF seed"); opn2_play(d, 8000, buf); }
        else if(s == "xmi") must(opn2_openData(d, g_xmi.data(), (unsigned long)g_xmi.size()), "the XMI seed");
        else if(s == "rsxx") { must(opn2_openData(d, g_rsxx.data(), (unsigned long)g_rsxx.size()), "the RSXX seed"); if(!I->in.synth().setupLocked()) must(-1, "the RSXX seed (setup not locked)"); opn2_play(d, 2000, buf); }
        else if(s == "carry") { opn2_switchEmulator(d, OPNMIDI_EMU_GENS); opn2_rt_noteOn(d, 0, 60, 127); opn2_rt_noteOn(d, 1, 64, 127); if(opn2_generate(d, 30, buf) != 30) must(-1, "opn2_generate(30)"); }   // a sounding chord and the fractional-sample carry that a 15-frame call leaves behind (just under one frame at 44100 Hz)
        else if(s == "drums2chips") { for(int k = 0; k < 7; k++) opn2_rt_noteOn(d, 9, (OPN2_UInt8)(35 + k), 120); I->in.generate_ms(10); }
        else if(s == "busy1chip") { opn2_rt_controllerChange(d, 1, 64, 127); for(int k = 0; k < 5; k++) opn2_rt_noteOn(d, 1, (OPN2_UInt8)(50 + k), 100); opn2_rt_noteOff(d, 1, 51); }
        return I;
    }
    void destroy(void *p) override { Inst *I = (Inst *)p; delete I; }
    bool enabled(void *p, size_t) override { return !((Inst *)p)->closed; }
    void apply(void *p, size_t op, mcx::Verdict &v, uint64_t &) override { Inst &I = *(Inst *)p; if(I.closed) return; ops[op].fn(I, v); if(!v.bad && !I.closed && I.in.tap.bad_chip_index) v.fail("C03/chip-index-out-of-range", "a register write addressed a chip beyond the created ones"); }
    void key(void *p, vu::Ser &s) override { Inst &I = *(Inst *)p; s.u8(I.closed); if(I.closed) return; pl::ser_player(I.in, s); pl::ser_sequencer(I.in, s); s.u8(I.have_bank); }
    double budget_s(size_t) const override { return 60.0; }
};

} // namespace

int main(int argc, char **argv) {
    mcx::Args a = mcx::parse_args(argc, argv);
    static std::string label; label = a.extra.count("as") ? a.extra["as"] : "C03"; g_label = label;   // the bank-operation subset also serves C02 (bounded time for every call on loaded banks)
    pl::install_hooks(!(a.extra.count("subset") && a.extra["subset"] == "cores"));
    { pl::BankSpec m; pl::InsSpec s; s.id = 1; for(int i = 0; i < 128; i++) m.ins[i] = s; pl::BankSpec p; p.percussive = true; pl::InsSpec dd; dd.id = 2; dd.drum_key = 40; dd.kon_ms = 100; for(int i = 27; i < 88; i++) p.ins[i] = dd;
      g_bank = pl::make_wopn({m, p}); g_trunc.assign(g_bank.begin(), g_bank.begin() + 300); g_garbage.assign(64, 'Z'); }
    g_smf = gm::seed_smf1(); g_xmi = gm::seed_xmi(); g_mus = gm::seed_mus(); g_rsxx = gm::seed_rsxx();
    C03Model m; m.thorough = a.tier == "thorough"; if(a.extra.count("subset")) m.subset = a.extra["subset"];
    m.starts = {"fresh", "bank", "smf-half", "xmi", "rsxx", "drums2chips", "busy1chip", "carry"};
    if(!m.subset.empty()) m.starts = {"bank", "drums2chips", "busy1chip"};
    if(m.subset == "banks") m.starts = {"fresh", "bank"};
    if(m.subset == "cores") m.starts = {"bank", "smf-half", "carry"};
    m.build();
    // coverage of the exported API: every opn2_* function declared in the header must be reached by the op table
    { std::string hdr; std::string repo = getenv("VERIF_REPO") ? getenv("VERIF_REPO") : "/repo"; vu::read_file(repo + "/include/opnmidi.h", hdr); std::set<std::string> exported; size_t pos = 0;
      while((pos = hdr.find("opn2_", pos)) != std::string::npos) { size_t e = pos; while(e < hdr.size() && (isalnum((unsigned char)hdr[e]) || hdr[e] == '_')) e++; if(e < hdr.size() && hdr[e] == '(') exported.insert(hdr.substr(pos, e - pos)); pos = e; }
      std::vector<std::string> missing; for(auto &f : exported) if(!g_called.count(f)) missing.push_back(f);
      fprintf(stderr, "[c03] exported functions: %zu, reached by the op table: %zu, ops: %zu\n", exported.size(), exported.size() - missing.size(), m.ops.size());
      if(!missing.empty()) { for(auto &f : missing) fprintf(stderr, "[c03] NOT COVERED: %s\n", f.c_str()); return 2; } }
    return mcx::run_main(argc, argv, m, label.c_str(), 2, 2);
}
