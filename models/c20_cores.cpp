// C20 — every emulator core sounds the programmed pitch and goes silent on release (E2 finite
// configuration sweep with signal measurements using the statement's thresholds).
#include "player.hpp"
#include "enumx.hpp"

namespace {

enum { T_PITCH_CHECKED, T_PITCH_EXEMPT, T_NT };
static const std::vector<std::string> TAGS = {"pitch_measured", "pitch_exempt(run-at-pcm-rate or above 0.45 x rate)"};
static std::vector<uint8_t> g_bank;

static const int CORES[] = {OPNMIDI_EMU_MAME, OPNMIDI_EMU_NUKED_YM3438, OPNMIDI_EMU_GENS, OPNMIDI_EMU_YMFM_OPN2, OPNMIDI_EMU_NP2, OPNMIDI_EMU_MAME_2608, OPNMIDI_EMU_YMFM_OPNA, OPNMIDI_EMU_NUKED_YM2612};
static const long RATES[] = {8000, 11025, 22050, 44100, 48000, 53267, 55466, 96000, 192000};

struct Cfg { int core, family; long rate; bool pcmrate; int key, chips; int burst; int ending; /*0 note-off, 1 panic, 2 reset*/ int chord = 1; /* voices sounding the key in unison (one per MIDI channel) */ int prior_notes = 0; /* complete notes played (and each of them measured) on the same handle before the observed note */ };

static std::string cfg_str(const Cfg &c, const char *name) { char b[200]; snprintf(b, sizeof b, "%s, family %s, %ld Hz%s, key %d, %d chip(s), burst %d, ending %s", name, c.family ? "OPNA" : "OPN2", c.rate, c.pcmrate ? ", run-at-PCM-rate" : "", c.key, c.chips, c.burst, c.ending == 0 ? "note-off" : c.ending == 1 ? "panic" : "reset"); std::string r = b; if(c.chord > 1) r += ", " + std::to_string(c.chord) + " voices in unison"; return r; }

static void render(pl::Instance &I, double ms, std::vector<int> &out) {   // mono (left) samples
    long frames = (long)llround(ms * (double)I.play()->m_setup.PCM_RATE / 1000.0); static short buf[2 * 4096];
    while(frames > 0) { long n = frames > 4096 ? 4096 : frames; int got = opn2_generate(I.dev, (int)(n * 2), buf); for(int i = 0; i < got / 2; i++) out.push_back(buf[2 * i]); frames -= n; if(got <= 0) break; }
}

static void run_case(const Cfg &c, en::CaseOut &o) {
    pl::g_use_null_chips = false;
    pl::Instance I; I.create(c.rate); OPN2_MIDIPlayer *d = I.dev;
    if(opn2_switchEmulator(d, c.core) != 0) { o.fail("C20/harness", "core unavailable"); return; }
    opn2_setRunAtPcmRate(d, c.pcmrate ? 1 : 0); opn2_setNumChips(d, c.chips);
    pl::must(opn2_openBankData(d, g_bank.data(), (long)g_bank.size()), "opn2_openBankData(generated bank)", d); opn2_setChipType(d, c.family);
    opn2_setVolumeRangeModel(d, OPNMIDI_VolumeModel_Generic);
    std::string name = opn2_chipEmulatorName(d); std::string ctx = " [" + cfg_str(c, name.c_str()) + "]"; char b[300];
    const double FS = 32768.0;
    // idle level
    std::vector<int> idle; render(I, 50, idle);
    // the level the instance settles at before any note (the first milliseconds contain the resampler's start-up)
    double idle_mean = 0; size_t i0 = idle.size() / 2; for(size_t i = i0; i < idle.size(); i++) idle_mean += idle[i]; idle_mean /= (double)(idle.size() - i0);
    for(size_t i = i0; i < idle.size(); i++) if(fabs(idle[i] - idle_mean) > 0.01 * FS) { int x = idle[i]; snprintf(b, sizeof b, "output before any note is not a constant level: sample %d, mean %.1f", x, idle_mean); o.fail("C20/idle-not-constant", b + ctx); return; }
    // a long life of the handle: complete notes one after another on the same chip objects, each held 60 ms and released; every one of them has to sound its pitch and end
    { static const int PK[] = {60, 64, 67, 72, 76};
      for(int k = 0; k < c.prior_notes; k++) { int key = PK[k % 5]; double nom = 440.0 * pow(2.0, (key - 69.0) / 12.0);
        if(opn2_rt_noteOn(d, 0, (OPN2_UInt8)key, 127) != 1) { o.fail("C20/note-rejected", "note-on rejected" + ctx); return; }
        std::vector<int> h; render(I, 60, h); size_t a0 = h.size() / 4; double mean = 0; for(size_t i = a0; i < h.size(); i++) mean += h[i]; mean /= (double)(h.size() - a0);
        double ms2 = 0; for(size_t i = a0; i < h.size(); i++) ms2 += (h[i] - mean) * (h[i] - mean); double rms = sqrt(ms2 / (double)(h.size() - a0));
        if(!c.pcmrate && rms < 0.01 * FS) { snprintf(b, sizeof b, "note #%d on this handle (key %d): held note RMS %.1f is below 1 %% of full scale: not audible", k + 1, key, rms); o.fail("C20/not-audible/later-note", b + ctx); return; }
        if(!c.pcmrate) { double first = -1, last = -1; int n = 0; for(size_t i = a0 + 1; i < h.size(); i++) { double x = h[i - 1] - mean, y = h[i] - mean; if(x < 0 && y >= 0) { double t = (double)(i - 1) + (-x) / (y - x); if(first < 0) first = t; last = t; n++; } }
            double f = n >= 4 ? (double)(n - 1) / ((last - first) / (double)c.rate) : 0; double tol = c.rate < 22050 ? 0.01 : 0.005;
            if(n < 4 || fabs(f / nom - 1.0) > tol) { snprintf(b, sizeof b, "note #%d on this handle (key %d): fundamental %.3f Hz, nominal %.3f Hz", k + 1, key, f, nom); o.fail("C20/pitch/later-note", b + ctx); return; } }
        opn2_rt_noteOff(d, 0, (OPN2_UInt8)key); std::vector<int> r; render(I, 100, r);
        for(size_t i = r.size() * 6 / 10; i < r.size(); i++) if(fabs(r[i] - idle_mean) > 0.01 * FS) { snprintf(b, sizeof b, "note #%d on this handle (key %d): %.1f ms after the note-off the output is %d, idle level %.1f", k + 1, key, (double)i * 1000.0 / (double)c.rate, r[i], idle_mean); o.fail("C20/not-silent-after-release/later-note", b + ctx); return; }
        o.units += h.size() + r.size(); } }
    // dense burst of events with no time in between, ending with the key down
    for(int k = 0; k < c.burst; k++) { opn2_rt_noteOn(d, (OPN2_UInt8)(k % 3), (OPN2_UInt8)(c.key + (k % 5)), 120); opn2_rt_noteOff(d, (OPN2_UInt8)(k % 3), (OPN2_UInt8)(c.key + (k % 5))); }
    double nominal = 440.0 * pow(2.0, (c.key - 69.0) / 12.0);
    if(opn2_rt_noteOn(d, 0, (OPN2_UInt8)c.key, 127) != 1) { o.fail("C20/note-rejected", "note-on rejected" + ctx); return; }
    for(int v = 1; v < c.chord; v++) if(opn2_rt_noteOn(d, (OPN2_UInt8)v, (OPN2_UInt8)c.key, 127) != 1) { o.fail("C20/note-rejected", "note-on rejected" + ctx); return; }   // dense chord: the same key on further MIDI channels, a loud sum on one chip
    double held_ms = std::max(200.0, 14.0 * 1000.0 / nominal);
    std::vector<int> held; render(I, held_ms, held);
    // onset within 10 ms
    size_t onset = held.size(); for(size_t i = 0; i < held.size(); i++) if(fabs(held[i] - idle_mean) > 0.02 * FS) { onset = i; break; }
    double onset_ms = (double)onset * 1000.0 / (double)c.rate;
    std::string late_sig, late_detail;
    bool native = !c.pcmrate;   // onset, audibility and pitch are stated for emulators running at their native rate
    if(native && onset_ms >= 10.0) { snprintf(b, sizeof b, "the note becomes audible %.2f ms after the note-on (limit 10 ms)", onset_ms); std::string core = name; for(auto &ch : core) if(ch == ' ' || ch == '/') ch = '_'; late_sig = "C20/onset-late/" + std::string(c.burst ? "burst" + std::to_string(c.burst) : "single") + "/" + core; late_detail = b + ctx; }   // keep measuring: a known onset finding must not hide pitch/silence defects
    // audible while held (second half)
    double ms2 = 0, mean2 = 0; size_t h0 = held.size() / 2; for(size_t i = h0; i < held.size(); i++) mean2 += held[i]; mean2 /= (double)(held.size() - h0);
    for(size_t i = h0; i < held.size(); i++) ms2 += (held[i] - mean2) * (held[i] - mean2); double rms = sqrt(ms2 / (double)(held.size() - h0));
    if(native && rms < 0.01 * FS) { snprintf(b, sizeof b, "held note RMS %.1f is below 1 %% of full scale: not audible", rms); o.fail("C20/not-audible", b + ctx); return; }
    // fundamental from interpolated upward zero crossings of the second part
    bool pitch_applies = !c.pcmrate && nominal < 0.45 * (double)c.rate;
    if(pitch_applies) {
        o.tags |= 1ull << T_PITCH_CHECKED;
        size_t s0 = held.size() / 4; double first = -1, last = -1; int n = 0;
        for(size_t i = s0 + 1; i < held.size(); i++) { double a = held[i - 1] - mean2, bb = held[i] - mean2; if(a < 0 && bb >= 0) { double t = (double)(i - 1) + (-a) / (bb - a); if(first < 0) first = t; last = t; n++; } }
        if(n < 4) { snprintf(b, sizeof b, "only %d zero crossings in %.0f ms of a %.1f Hz note", n, held_ms * 0.75, nominal); o.fail("C20/pitch/no-oscillation", b + ctx); return; }
        double f = (double)(n - 1) / ((last - first) / (double)c.rate);
        double tol = c.rate < 22050 ? 0.01 : 0.005;
        if(fabs(f / nominal - 1.0) > tol) { snprintf(b, sizeof b, "fundamental %.3f Hz, nominal %.3f Hz (%.3f %% off, limit %.1f %%)", f, nominal, (f / nominal - 1.0) * 100.0, tol * 100.0); o.fail(std::string("C20/pitch/") + (f > nominal ? "sharp" : "flat"), b + ctx); return; }
    } else o.tags |= 1ull << T_PITCH_EXEMPT;
    // ending
    if(c.ending == 0) { for(int v = 0; v < c.chord; v++) opn2_rt_noteOff(d, (OPN2_UInt8)v, (OPN2_UInt8)c.key); } else if(c.ending == 1) opn2_panic(d); else opn2_reset(d);
    std::vector<int> rel; render(I, 150, rel);       // release time of the pure-tone instrument (fastest release) passes well inside 150 ms
    std::vector<int> after; render(I, 150, after);
    double level = idle_mean;
    if(c.ending == 2) { double m = 0; for(int x : after) m += x; level = m / (double)after.size(); if(fabs(level - idle_mean) > 0.01 * FS) { snprintf(b, sizeof b, "idle level after reset %.1f, before any note %.1f", level, idle_mean); o.fail("C20/idle-level-changed-by-reset", b + ctx); return; } }
    for(size_t i = 0; i < after.size(); i++) if(fabs(after[i] - level) > 0.01 * FS) { snprintf(b, sizeof b, "%.1f ms after the %s the output is %d, idle level %.1f (limit 1 %% of full scale = 327)", 150.0 + (double)i * 1000.0 / (double)c.rate, c.ending == 0 ? "note-off" : c.ending == 1 ? "panic" : "reset", after[i], level);
        o.fail(std::string("C20/not-silent-after-") + (c.ending == 0 ? "release" : c.ending == 1 ? "panic" : "reset") + (c.burst ? "/burst" : ""), b + ctx); return; }
    o.units = idle.size() + held.size() + rel.size() + after.size();
    if(!late_sig.empty()) { o.fail(late_sig, late_detail); return; }
    o.nontrivial = true;
    pl::g_use_null_chips = true;
}

} // namespace

int main(int argc, char **argv) {
    en::Args a = en::parse_args(argc, argv);
    bool thorough = a.tier == "thorough";
    pl::install_hooks(false);
    { // pure tone: algorithm 7, only the last operator audible, multiplier 1, fastest attack and release
        WOPNFile *f = WOPN_Init(1, 1); f->version = 2;
        for(int s = 0; s < 2; s++) { WOPNBank *bk = s ? f->banks_percussive : f->banks_melodic; for(int i = 0; i < 128; i++) { WOPNInstrument &w = bk->ins[i]; memset(&w, 0, sizeof w); w.fbalg = 0x07;
            for(int op = 0; op < 4; op++) { w.operators[op].dtfm_30 = 1; w.operators[op].level_40 = (uint8_t)(op == 3 ? 0 : 127); w.operators[op].rsatk_50 = 0x1F; w.operators[op].amdecay1_60 = 0; w.operators[op].decay2_70 = 0; w.operators[op].susrel_80 = 0x0F; }
            w.delay_on_ms = 40000; w.delay_off_ms = 50; w.percussion_key_number = 0; } }
        size_t sz = WOPN_CalculateBankFileSize(f, 2); g_bank.resize(sz); WOPN_SaveBankToMem(f, g_bank.data(), sz, 2, 0); WOPN_Free(f); }
    std::vector<en::Family> fams;
    static int KSTEP; KSTEP = thorough ? 1 : 3; static int NK; NK = (108 - 24) / KSTEP + 1;
    { en::Family F; F.name = "pitch_and_release"; F.count = (uint64_t)8 * 2 * 9 * 2 * (uint64_t)NK; F.chunk = 2; F.budget_s = 300; F.describe = std::string("8 cores x chip family {OPN2, OPNA} x sample rate {8000,11025,22050,44100,48000,53267,55466,96000,192000} x run-at-PCM-rate off/on x keys 24..108 (") + (thorough ? "all" : "every third") + "), single held note: idle level, onset < 10 ms, audible, fundamental within 0.5 % (1 % below 22.05 kHz; keys below 0.45 x rate; exempt when running at PCM rate), silent 150 ms after note-off";
      F.run = [](uint64_t i, en::CaseOut &o) { Cfg c; uint64_t r = i; c.core = CORES[r % 8]; r /= 8; c.family = (int)(r % 2); r /= 2; c.rate = RATES[r % 9]; r /= 9; c.pcmrate = r % 2; r /= 2; c.key = 24 + (int)r * KSTEP; c.chips = 1; c.burst = 0; c.ending = 0;
        if(i % 307 == 0) o.sample = cfg_str(c, "core"); run_case(c, o); };
      fams.push_back(F); }
    { static const int BURST[] = {1, 10, 20, 50}; static const int KEYS[] = {36, 60, 84}; static const long RT[] = {22050, 44100, 53267};
      en::Family F; F.name = "bursts_chips_endings"; F.count = (uint64_t)8 * 2 * 3 * 3 * 4 * 3 * 3; F.chunk = 2; F.budget_s = 300; F.describe = "8 cores x family x rate {22050,44100,53267} x chips {1,2,3} x burst of {1,10,20,50} note-on/off pairs with no time in between x key {36,60,84} x ending {note-off, panic, reset}: pitch of the held note and return to the idle level";
      F.run = [](uint64_t i, en::CaseOut &o) { Cfg c; uint64_t r = i; c.core = CORES[r % 8]; r /= 8; c.family = (int)(r % 2); r /= 2; c.rate = RT[r % 3]; r /= 3; c.chips = 1 + (int)(r % 3); r /= 3; c.burst = BURST[r % 4]; r /= 4; c.key = KEYS[r % 3]; r /= 3; c.ending = (int)r; c.pcmrate = false;
        if(i % 211 == 0) o.sample = cfg_str(c, "core"); run_case(c, o); };
      fams.push_back(F); }
    { static const int KEYS[] = {36, 60, 84}; static const long RT[] = {8000, 44100, 53267, 96000, 192000}; static const int CH[] = {3, 6};
    { en::Family F; F.name = "many_notes_one_handle"; F.count = (uint64_t)8 * 2 * 2; F.chunk = 1; F.budget_s = 900; F.describe = "8 cores x chip family x rate {44100, 53267}: 160 complete notes (60 ms held, 100 ms released; keys 60,64,67,72,76 in turn) one after another on ONE handle - about 2500 register writes per chip object - each measured for audibility, pitch and return to the idle level; then the usual observed note";
      F.run = [](uint64_t i, en::CaseOut &o) { Cfg c; c.core = CORES[i % 8]; c.family = (int)((i / 8) % 2); c.rate = (i / 16) ? 53267 : 44100; c.pcmrate = false; c.key = 69; c.chips = 1; c.burst = 0; c.ending = 0; c.prior_notes = 160; o.sample = "160 notes on one handle, core " + std::to_string(c.core); run_case(c, o); };
      fams.push_back(F); }
      en::Family F; F.name = "unison_chords"; F.count = (uint64_t)8 * 2 * 5 * 2 * 3 * 2; F.chunk = 2; F.budget_s = 300; F.describe = "8 cores x family x rate {8000,44100,53267,96000,192000} x {3, 6} voices sounding the key in unison at full velocity on one chip (a loud, clipping sum) x key {36,60,84} x ending {note-off, panic}: onset, audibility, fundamental and return to the idle level";
      F.run = [](uint64_t i, en::CaseOut &o) { Cfg c; uint64_t r = i; c.core = CORES[r % 8]; r /= 8; c.family = (int)(r % 2); r /= 2; c.rate = RT[r % 5]; r /= 5; c.chord = CH[r % 2]; r /= 2; c.key = KEYS[r % 3]; r /= 3; c.ending = (int)r; c.pcmrate = false; c.chips = 1; c.burst = 0;
        if(i % 101 == 0) o.sample = cfg_str(c, "core"); run_case(c, o); };
      fams.push_back(F); }
    return en::run_main(argc, argv, "C20", fams, TAGS, "non-trivial: the whole measurement (idle, onset, level, pitch where applicable, silence) completed inside the thresholds");
}
