// C11 — loudness controls are monotone and stay within the chip's level range (E2 finite-domain sweep
// through the real note-update path, tap on registers 0x40..0x4F).
#include "player.hpp"
#include "enumx.hpp"
#include <set>

namespace {

static const std::vector<std::string> TAGS = {};
static std::vector<uint8_t> g_base;
// carrier mask per algorithm, by register slot order 0x40, 0x44, 0x48, 0x4C (YM2612 manual: operator order 1,3,2,4)
static const bool CARRIER[8][4] = { {0,0,0,1},{0,0,0,1},{0,0,0,1},{0,0,0,1},{0,0,1,1},{0,1,1,1},{0,1,1,1},{1,1,1,1} };

static OPN2_Instrument mk_ins(int alg, int level) {
    OPN2_Instrument i; memset(&i, 0, sizeof i); i.fbalg = (OPN2_UInt8)alg;
    for(int op = 0; op < 4; op++) { i.operators[op].dtfm_30 = 1; i.operators[op].level_40 = (OPN2_UInt8)level; i.operators[op].rsatk_50 = 0x1F; i.operators[op].susrel_80 = 0x0F; }
    i.delay_on_ms = 40000; i.delay_off_ms = 100; return i;
}
static int g_vel_offset = 0;   // midi_velocity_offset of the test instrument (0 except in the velocity_offsets family)
static bool setup(pl::Instance &I, int model, int alg, int level, int scale_mod, int fullrange) {
    I.create(44100); OPN2_MIDIPlayer *d = I.dev; opn2_setNumChips(d, 1);
    if(opn2_openBankData(d, g_base.data(), (long)g_base.size()) != 0) return false;
    opn2_setVolumeRangeModel(d, model); opn2_setScaleModulators(d, scale_mod); opn2_setFullRangeBrightness(d, fullrange);
    OPN2_BankId mid = {0, 0, 0}; OPN2_Bank mb; if(opn2_getBank(d, &mid, OPNMIDI_Bank_Create, &mb)) return false;
    OPN2_Instrument ins = mk_ins(alg, level); ins.midi_velocity_offset = (OPN2_SInt8)g_vel_offset; opn2_setInstrument(d, &mb, 0, &ins);
    I.tap.logging = false;
    return true;
}
static void master(OPN2_MIDIPlayer *d, int v) { uint8_t m[] = {0xF0, 0x7F, 0x7F, 0x04, 0x01, 0x00, (uint8_t)v, 0xF7}; opn2_rt_systemExclusive(d, m, sizeof m); }
static inline void read_tl(pl::Instance &I, uint8_t tl[4]) { const pl::ChipShadow &c = I.tap.chips[0]; for(int op = 0; op < 4; op++) tl[op] = c.regs[0][0x40 + 4 * op]; }
static bool range_ok(pl::Instance &I, en::CaseOut &o, const std::string &ctx) {
    const pl::ChipShadow &c = I.tap.chips[0];
    for(int r = 0x40; r <= 0x4F; r++) if(c.maxraw[0][r] > 127 || c.maxraw[1][r] > 127) { char b[160]; snprintf(b, sizeof b, "total-level register %02X was written with %u (> 127)", r, std::max(c.maxraw[0][r], c.maxraw[1][r])); o.fail("C11/level-out-of-range", b + ctx); return false; }
    return true;
}
static const char *MODEL[] = {"auto", "Generic", "NativeOPN2", "DMX", "Apogee", "Win9x"};

} // namespace

int main(int argc, char **argv) {
    en::Args a = en::parse_args(argc, argv);
    bool thorough = a.tier == "thorough";
    pl::install_hooks(true);
    { pl::BankSpec m; pl::InsSpec s; s.id = 31; m.ins[127] = s; g_base = pl::make_wopn({m}); }
    std::vector<en::Family> fams;
    { // velocity x volume x expression over 1..127/0..127/0..127 for master {0,1,64,127} x 5 models x algorithm {0,4,7}
      static const int MASTERS_Q[] = {0, 1, 64, 127}, MASTERS_T[] = {0, 1, 2, 8, 16, 32, 48, 64, 80, 96, 112, 126, 127}; static const int ALGS_Q[] = {7, 4, 0}, ALGS_T[] = {7, 6, 5, 4, 3, 2, 1, 0};
      static const int *MASTERS, *ALGS; static int NM, NAL; MASTERS = thorough ? MASTERS_T : MASTERS_Q; ALGS = thorough ? ALGS_T : ALGS_Q; NM = thorough ? 13 : 4; NAL = thorough ? 8 : 3;
      en::Family F; F.name = "velocity_volume_expression"; F.count = (uint64_t)5 * NM * NAL * 127; F.chunk = 1; F.budget_s = 120; F.describe = std::string("5 volume models x master volume ") + (thorough ? "{0,1,2,8,16,32,48,64,80,96,112,126,127} x algorithm 0..7" : "{0,1,64,127} x algorithm {7,4,0}") + " x velocity 1..127: for each, channel volume 0..127 x expression 0..127 (16384 points): range 0..127, carriers silent at zero, modulators untouched, monotone in volume and expression; monotone in velocity and master across neighbouring cases";
      F.run = [](uint64_t i, en::CaseOut &o) { int model = 1 + (int)(i % 5), mi = (int)((i / 5) % NM), alg = ALGS[(i / 5 / NM) % NAL], vel = 1 + (int)(i / 5 / NM / NAL);
        std::string ctx = std::string(" [model ") + MODEL[model] + ", master " + std::to_string(MASTERS[mi]) + ", algorithm " + std::to_string(alg) + ", velocity " + std::to_string(vel) + "]";
        // two instances so that the velocity axis (vel vs vel-1) and the master axis (this vs previous master) can be compared point by point
        pl::Instance I, P, M; int patch_level = 20;
        if(!setup(I, model, alg, patch_level, 0, 0) || !setup(P, model, alg, patch_level, 0, 0) || !setup(M, model, alg, patch_level, 0, 0)) { o.fail("C11/harness", "setup"); return; }
        master(I.dev, MASTERS[mi]); master(P.dev, MASTERS[mi]); master(M.dev, MASTERS[mi > 0 ? mi - 1 : 0]);
        opn2_rt_noteOn(I.dev, 0, 60, (OPN2_UInt8)vel); opn2_rt_noteOn(P.dev, 0, 60, (OPN2_UInt8)(vel > 1 ? vel - 1 : 1)); opn2_rt_noteOn(M.dev, 0, 60, (OPN2_UInt8)vel);
        static uint8_t grid[128][128][4]; char b[300];
        for(int vol = 0; vol < 128; vol++) {
            opn2_rt_controllerChange(I.dev, 0, 7, (OPN2_UInt8)vol); opn2_rt_controllerChange(P.dev, 0, 7, (OPN2_UInt8)vol); opn2_rt_controllerChange(M.dev, 0, 7, (OPN2_UInt8)vol);
            for(int ex = 0; ex < 128; ex++) {
                opn2_rt_controllerChange(I.dev, 0, 11, (OPN2_UInt8)ex); opn2_rt_controllerChange(P.dev, 0, 11, (OPN2_UInt8)ex); opn2_rt_controllerChange(M.dev, 0, 11, (OPN2_UInt8)ex);
                uint8_t tl[4], tp[4], tm[4]; read_tl(I, tl); read_tl(P, tp); read_tl(M, tm); memcpy(grid[vol][ex], tl, 4);
                for(int op = 0; op < 4; op++) {
                    if(CARRIER[alg][op]) {
                        if((vol == 0 || ex == 0 || MASTERS[mi] == 0) && tl[op] != 127) { snprintf(b, sizeof b, "volume %d expression %d: carrier slot %d total level %u, a zero volume/expression/master must silence it (127)", vol, ex, op, tl[op]); o.fail("C11/zero-not-silent", b + ctx); return; }
                        if(vol > 0 && tl[op] > grid[vol - 1][ex][op]) { snprintf(b, sizeof b, "carrier slot %d: attenuation rose from %u to %u when channel volume went %d -> %d (expression %d)", op, grid[vol - 1][ex][op], tl[op], vol - 1, vol, ex); o.fail("C11/not-monotone/volume", b + ctx); return; }
                        if(ex > 0 && tl[op] > grid[vol][ex - 1][op]) { snprintf(b, sizeof b, "carrier slot %d: attenuation rose from %u to %u when expression went %d -> %d (volume %d)", op, grid[vol][ex - 1][op], tl[op], ex - 1, ex, vol); o.fail("C11/not-monotone/expression", b + ctx); return; }
                        if(vel > 1 && tl[op] > tp[op]) { snprintf(b, sizeof b, "carrier slot %d: attenuation rose from %u to %u when velocity went %d -> %d (volume %d, expression %d)", op, tp[op], tl[op], vel - 1, vel, vol, ex); o.fail("C11/not-monotone/velocity", b + ctx); return; }
                        if(mi > 0 && tl[op] > tm[op]) { snprintf(b, sizeof b, "carrier slot %d: attenuation rose from %u to %u when master volume went %d -> %d (volume %d, expression %d)", op, tm[op], tl[op], MASTERS[mi - 1], MASTERS[mi], vol, ex); o.fail("C11/not-monotone/master", b + ctx); return; }
                    } else if(tl[op] != patch_level) { snprintf(b, sizeof b, "modulator slot %d total level %u differs from the patch value %d although neither modulator scaling nor reduced brightness is in force (volume %d, expression %d)", op, tl[op], patch_level, vol, ex); o.fail("C11/modulator-touched", b + ctx); return; }
                }
            }
        }
        if(!range_ok(I, o, ctx)) return;
        o.units = 16384; if(i % 401 == 0) o.sample = ctx; o.nontrivial = true; };
      fams.push_back(F); }
    { // brightness
      en::Family F; F.name = "brightness"; F.count = 2 * 8 * 2 * 128 * 5; F.chunk = 16; F.budget_s = 60; F.describe = "full-range-brightness flag x 8 algorithms x modulator scaling on/off x operator level 0..127 x 5 volume models; on each: 16 channel volumes x brightness 127..0: range 0..127, lower brightness never lowers any operator's attenuation, modulators equal the patch value at full brightness without scaling";
      F.run = [](uint64_t i, en::CaseOut &o) { int fr = (int)(i % 2), alg = (int)((i / 2) % 8), sm = (int)((i / 16) % 2), level = (int)((i / 32) % 128), model = 1 + (int)(i / 4096);
        std::string ctx = std::string(" [model ") + MODEL[model] + ", full-range " + std::to_string(fr) + ", algorithm " + std::to_string(alg) + ", modulator scaling " + std::to_string(sm) + ", operator level " + std::to_string(level) + "]";
        pl::Instance I; if(!setup(I, model, alg, level, sm, fr)) { o.fail("C11/harness", "setup"); return; } char b[300];
        opn2_rt_noteOn(I.dev, 0, 60, 100);
        for(int v = 0; v < 16; v++) { int vol = v * 8 + 7; opn2_rt_controllerChange(I.dev, 0, 7, (OPN2_UInt8)vol);
            uint8_t prev[4] = {0, 0, 0, 0};
            for(int br = 127; br >= 0; br--) { opn2_rt_controllerChange(I.dev, 0, 74, (OPN2_UInt8)br); uint8_t tl[4]; read_tl(I, tl);
                for(int op = 0; op < 4; op++) {
                    if(br == 127 && !CARRIER[alg][op] && !sm && tl[op] != level) { snprintf(b, sizeof b, "modulator slot %d total level %u != patch value %d at full brightness without scaling", op, tl[op], level); o.fail("C11/modulator-touched", b + ctx); return; }
                    if(br < 127 && tl[op] < prev[op]) { snprintf(b, sizeof b, "slot %d: attenuation fell from %u to %u when brightness went %d -> %d (volume %d): lower brightness brightened", op, prev[op], tl[op], br + 1, br, vol); o.fail("C11/brightness-not-monotone", b + ctx); return; }
                    prev[op] = tl[op]; } } }
        if(!range_ok(I, o, ctx)) return;
        o.units = 16 * 128; if(i % 997 == 0) o.sample = ctx; o.nontrivial = true; };
      fams.push_back(F); }
    { // instruments with a velocity offset: the effective velocity is clamped to 1..127, so loudness stays monotone in the velocity sent
      static const int OFFS[] = {-128, -100, -24, -1, 1, 24, 100, 127};
      en::Family F; F.name = "velocity_offsets"; F.count = 5 * 8 * 3; F.chunk = 1; F.budget_s = 60; F.describe = "5 volume models x instrument velocity offset {-128,-100,-24,-1,+1,+24,+100,+127} x algorithm {7,4,0}: velocity 1..127 x channel volume {1,64,127}: carrier attenuation never rises with the velocity sent, range 0..127";
      F.run = [](uint64_t i, en::CaseOut &o) { int model = 1 + (int)(i % 5), off = OFFS[(i / 5) % 8]; static const int AL[] = {7, 4, 0}; int alg = AL[i / 40];
        std::string ctx = std::string(" [model ") + MODEL[model] + ", velocity offset " + std::to_string(off) + ", algorithm " + std::to_string(alg) + "]"; char b[300];
        g_vel_offset = off; pl::Instance I; bool ok = setup(I, model, alg, 20, 0, 0); g_vel_offset = 0; if(!ok) { o.fail("C11/harness", "setup"); return; }
        for(int vol : {1, 64, 127}) { opn2_rt_controllerChange(I.dev, 0, 7, (OPN2_UInt8)vol); uint8_t prev[4] = {127, 127, 127, 127};
            for(int vel = 1; vel < 128; vel++) { opn2_rt_noteOn(I.dev, 0, 60, (OPN2_UInt8)vel); uint8_t tl[4]; read_tl(I, tl); opn2_rt_noteOff(I.dev, 0, 60);
                for(int op = 0; op < 4; op++) if(CARRIER[alg][op] && vel > 1 && tl[op] > prev[op]) { snprintf(b, sizeof b, "carrier slot %d: attenuation rose from %u to %u when velocity went %d -> %d (volume %d)", op, prev[op], tl[op], vel - 1, vel, vol); o.fail("C11/not-monotone/velocity", b + ctx); return; }
                memcpy(prev, tl, 4); } }
        if(!range_ok(I, o, ctx)) return;
        o.units = 3 * 127; if(i % 11 == 0) o.sample = ctx; o.nontrivial = true; };
      fams.push_back(F); }
    { // auto-arpeggio: two notes time-share one chip channel; every re-trigger must bring the levels of the note that is keyed on, so a note muted by CC7/CC11 = 0 stays silent whoever its partner is
      en::Family F; F.name = "arpeggio_shared_channel"; F.count = 5 * 3 * 2 * 2; F.chunk = 1; F.budget_s = 60; F.describe = "auto-arpeggio on, one chip filled by six notes of MIDI channel 0 at full volume, a seventh note of the same timbre on MIDI channel 1 whose {CC7, CC11} is 0 (or the roles swapped) shares a chip channel; 600 ms of audio in 5 ms steps; at every key-on of the muted note (recognised by its F-number) the carriers must be at 127; 5 volume models x algorithm {7,4,0}";
      F.run = [](uint64_t i, en::CaseOut &o) { int model = 1 + (int)(i % 5); static const int AL[] = {7, 4, 0}; int alg = AL[(i / 5) % 3]; int ctl = (int)((i / 15) % 2) ? 11 : 7; bool swapped = (i / 30) != 0;
        std::string ctx = std::string(" [model ") + MODEL[model] + ", algorithm " + std::to_string(alg) + ", CC" + std::to_string(ctl) + " = 0 on the " + (swapped ? "six-note" : "single-note") + " channel]"; char b[300];
        // F-number of the muted key, from a reference instance
        auto fnum_of = [&](int key, unsigned &a4, unsigned &a0) { pl::Instance R; if(!setup(R, model, alg, 20, 0, 0)) return false; opn2_rt_noteOn(R.dev, 0, (OPN2_UInt8)key, 100); a4 = R.tap.chips[0].regs[0][0xA4]; a0 = R.tap.chips[0].regs[0][0xA0]; return true; };
        pl::Instance I; if(!setup(I, model, alg, 20, 0, 0)) { o.fail("C11/harness", "setup"); return; } OPN2_MIDIPlayer *d = I.dev;
        { OPN2_BankId mid = {0, 0, 0}; OPN2_Bank mb; opn2_getBank(d, &mid, 0, &mb); OPN2_Instrument ins = mk_ins(alg, 20); ins.delay_on_ms = 40000; opn2_setInstrument(d, &mb, 0, &ins); }
        opn2_setAutoArpeggio(d, 1);
        int muted_ch = swapped ? 0 : 1, loud_ch = swapped ? 1 : 0; opn2_rt_controllerChange(d, (OPN2_UInt8)muted_ch, (OPN2_UInt8)ctl, 0);
        int keys0[6] = {40, 42, 44, 46, 48, 50}; for(int k : keys0) opn2_rt_noteOn(d, 0, (OPN2_UInt8)k, 100);
        opn2_rt_noteOn(d, 1, 70, 100);
        std::set<std::pair<unsigned, unsigned>> muted_f; if(swapped) { for(int k : keys0) { unsigned a4, a0; if(!fnum_of(k, a4, a0)) { o.fail("C11/harness", "ref"); return; } muted_f.insert({a4, a0}); } } else { unsigned a4, a0; if(!fnum_of(70, a4, a0)) { o.fail("C11/harness", "ref"); return; } muted_f.insert({a4, a0}); }
        (void)loud_ch;
        I.tap.logging = true; I.tap.log.clear(); unsigned shadow[2][256]; memset(shadow, 0, sizeof shadow); for(int p = 0; p < 2; p++) for(int r = 0; r < 256; r++) shadow[p][r] = I.tap.chips[0].regs[p][r];
        static short buf[1024]; int muted_keyons = 0, loud_keyons = 0;
        for(int step = 0; step < 120 && !o.bad; step++) { opn2_generate(d, 441, buf);
            for(auto &w : I.tap.log) { if(w.kind || w.chip != 0) continue; if(w.reg == 0x28 && w.port == 0) { if((w.val & 0xF0) == 0) continue; unsigned cc = w.val & 3, port = (w.val & 4) ? 1 : 0; unsigned a4 = shadow[port][0xA4 + cc], a0 = shadow[port][0xA0 + cc];
                    if(muted_f.count({a4, a0})) { muted_keyons++; for(int op = 0; op < 4; op++) if(CARRIER[alg][op]) { unsigned tl = shadow[port][0x40 + 4 * op + cc] & 0x7F; if(tl != 127) { snprintf(b, sizeof b, "key-on of the muted note on chip channel %u with carrier slot %d at total level %u (its CC%d is 0: 127 expected)", port * 3 + cc, op, tl, ctl); o.fail("C11/zero-not-silent/arpeggio-shared-channel", b + ctx); break; } } }
                    else loud_keyons++; }
                else shadow[w.port & 1][w.reg & 0xFF] = w.val; }
            I.tap.log.clear(); }
        if(o.bad) return;
        if(muted_keyons < 2 || loud_keyons < 2) { snprintf(b, sizeof b, "the channel was not time-shared as intended (%d key-ons of the muted note, %d of the others)", muted_keyons, loud_keyons); o.fail("C11/harness-arpeggio-not-exercised", b + ctx); return; }
        if(!range_ok(I, o, ctx)) return;
        o.units = (uint64_t)(muted_keyons + loud_keyons); if(i % 7 == 0) o.sample = ctx + " " + std::to_string(muted_keyons) + " key-ons of the muted note"; o.nontrivial = true; };
      fams.push_back(F); }
    { // controls changed while the note sounds: the level written by the refresh must be the level a fresh note gets under the same settings
      static const int VELS_Q[] = {1, 64, 127}, VELS_T[] = {1, 16, 32, 64, 100, 126, 127}; static const int ALGS_Q[] = {7, 4, 0};
      static int NV, NA; NV = thorough ? 7 : 3; NA = thorough ? 8 : 3; static bool TH; TH = thorough;
      en::Family F; F.name = "changes_on_held_note"; F.count = (uint64_t)5 * NA * NV * 3; F.chunk = 1; F.budget_s = 120; F.describe = std::string("5 volume models x algorithm ") + (thorough ? "0..7" : "{7,4,0}") + " x velocity " + (thorough ? "{1,16,32,64,100,126,127}" : "{1,64,127}") + " x control {SysEx master volume, CC7, CC11}: with the note held, every ordered pair (previous value, new value) in 0..127 x 0..127 is sent; after each message the levels written by the refresh must obey the clauses of the statement (zero silences the carriers, a larger value never attenuates more and a smaller one never less, modulators untouched, range 0..127; 16384 pairs each)";
      F.run = [](uint64_t i, en::CaseOut &o) { int model = 1 + (int)(i % 5), alg = TH ? (int)((i / 5) % NA) : ALGS_Q[(i / 5) % NA], vel = (TH ? VELS_T : VELS_Q)[(i / 5 / NA) % NV], ctl = (int)(i / 5 / NA / NV);
        static const char *CN[] = {"master volume", "channel volume (CC7)", "expression (CC11)"};
        std::string ctx = std::string(" [model ") + MODEL[model] + ", algorithm " + std::to_string(alg) + ", velocity " + std::to_string(vel) + ", " + CN[ctl] + " changed on a held note]"; char b[300];
        auto apply = [&](OPN2_MIDIPlayer *d, int v) { if(ctl == 0) master(d, v); else opn2_rt_controllerChange(d, 0, ctl == 1 ? 7 : 11, (OPN2_UInt8)v); };
        // the statement's own clauses, applied to the levels that the refresh of a sounding note writes: zero silences, more never attenuates more, less never attenuates less
        pl::Instance H; if(!setup(H, model, alg, 20, 0, 0)) { o.fail("C11/harness", "setup"); return; }
        opn2_rt_noteOn(H.dev, 0, 60, (OPN2_UInt8)vel);
        const char *cn = ctl == 0 ? "master" : ctl == 1 ? "volume" : "expression";
        for(int v1 = 0; v1 < 128; v1++) for(int v2 = 0; v2 < 128; v2++) { uint8_t t1[4], t2[4]; apply(H.dev, v1); read_tl(H, t1); apply(H.dev, v2); read_tl(H, t2);
            for(int op = 0; op < 4; op++) { if(!CARRIER[alg][op]) { if(t2[op] != 20) { snprintf(b, sizeof b, "%s %d -> %d on a sounding note: modulator slot %d total level %u differs from the patch value 20", CN[ctl], v1, v2, op, t2[op]); o.fail("C11/modulator-touched", b + ctx); return; } continue; }
                if(v2 == 0 && t2[op] != 127) { snprintf(b, sizeof b, "%s %d -> 0 on a sounding note: carrier slot %d total level %u, zero must silence it (127)", CN[ctl], v1, op, t2[op]); o.fail(std::string("C11/held-note/zero-not-silent/") + cn, b + ctx); return; }
                if(v2 > v1 && t2[op] > t1[op]) { snprintf(b, sizeof b, "%s %d -> %d on a sounding note: carrier slot %d attenuation rose from %u to %u", CN[ctl], v1, v2, op, t1[op], t2[op]); o.fail(std::string("C11/held-note/not-monotone/") + cn, b + ctx); return; }
                if(v2 < v1 && t2[op] < t1[op]) { snprintf(b, sizeof b, "%s %d -> %d on a sounding note: carrier slot %d attenuation fell from %u to %u", CN[ctl], v1, v2, op, t1[op], t2[op]); o.fail(std::string("C11/held-note/not-monotone/") + cn, b + ctx); return; } } }
        if(!range_ok(H, o, ctx)) return;
        o.units = 16384; if(i % 7 == 0) o.sample = ctx; o.nontrivial = true; };
      fams.push_back(F); }
    { // Reset All Controllers (CC121) brings expression back to 127 while the key stays down: the sounding note must come out at the level a fresh note gets under the resulting settings
      static const int VELS_Q[] = {1, 64, 127}; static const int ALGS_Q[] = {7, 4, 0}; static const int VOLS[] = {0, 1, 64, 127};
      en::Family F; F.name = "reset_all_controllers_on_held_note"; F.count = 5 * 3 * 3 * 4; F.chunk = 1; F.budget_s = 120; F.describe = "5 volume models x algorithm {7,4,0} x velocity {1,64,127} x channel volume {0,1,64,127}: with the note held, expression set to every value 0..127 and then CC121; the total levels afterwards must equal those of a note struck on a second instance under the same volume with expression 127";
      F.run = [](uint64_t i, en::CaseOut &o) { int model = 1 + (int)(i % 5), alg = ALGS_Q[(i / 5) % 3], vel = VELS_Q[(i / 15) % 3], vol = VOLS[i / 45];
        std::string ctx = std::string(" [model ") + MODEL[model] + ", algorithm " + std::to_string(alg) + ", velocity " + std::to_string(vel) + ", channel volume " + std::to_string(vol) + ", CC121 on a held note]"; char b[300];
        pl::Instance R; if(!setup(R, model, alg, 20, 0, 0)) { o.fail("C11/harness", "setup"); return; }
        opn2_rt_controllerChange(R.dev, 0, 7, (OPN2_UInt8)vol); opn2_rt_noteOn(R.dev, 0, 60, (OPN2_UInt8)vel); uint8_t want[4]; read_tl(R, want);
        pl::Instance H; if(!setup(H, model, alg, 20, 0, 0)) { o.fail("C11/harness", "setup"); return; }
        opn2_rt_controllerChange(H.dev, 0, 7, (OPN2_UInt8)vol); opn2_rt_noteOn(H.dev, 0, 60, (OPN2_UInt8)vel);
        for(int x = 0; x < 128; x++) { opn2_rt_controllerChange(H.dev, 0, 11, (OPN2_UInt8)x); opn2_rt_controllerChange(H.dev, 0, 121, 0); uint8_t t[4]; read_tl(H, t);
            for(int op = 0; op < 4; op++) if(t[op] != want[op]) { snprintf(b, sizeof b, "expression %d, then CC121 (expression is 127 again) with the key down: slot %d total level %u, a fresh note under the same settings gets %u", x, op, t[op], want[op]);
                o.fail(CARRIER[alg][op] ? "C11/held-note/level-after-controller-reset" : "C11/modulator-touched", b + ctx); return; } }
        o.units = 128; if(i % 7 == 0) o.sample = ctx; o.nontrivial = true; };
      fams.push_back(F); }
    return en::run_main(argc, argv, "C11", fams, TAGS, "non-trivial: the whole sub-grid was swept and every total-level write compared");
}
