// C19 — only well-formed, correctly addressed SysEx messages take effect (E2 over messages x prior
// states x device ids, reference validity predicate + documented effect, full-snapshot comparison).
#include "player.hpp"
#include "enumx.hpp"

namespace {

typedef std::vector<uint8_t> Bytes;
static std::vector<uint8_t> g_bank;

enum { T_ACCEPTED, T_REJECTED, T_EITHER, T_NT };
static const std::vector<std::string> TAGS = {"accepted_as_required", "rejected_as_required", "dont_care_encoding"};

enum Kind { R_REJECT, R_GM_ON, R_GM_OFF, R_MASTER, R_GS, R_DRUM, R_XG };
struct Ref { int verdict; /* 0 must reject, 1 must accept, 2 either */ Kind kind; int a, b; };

static uint8_t roland_sum(const uint8_t *p, size_t n) { unsigned s = 0; for(size_t i = 0; i < n; i++) s += p[i] & 0x7F; return (uint8_t)((128 - (s & 127)) & 127); }

// Reference predicate, from the statement: F0..F7 framing, device match or broadcast, exact length, Roland checksum.
static Ref reference(const Bytes &m, unsigned devid) {
    Ref r = {0, R_REJECT, 0, 0};
    size_t n = m.size();
    if(n < 4 || m[0] != 0xF0 || m[n - 1] != 0xF7) return r;
    for(size_t i = 1; i + 1 < n; i++) if(m[i] & 0x80) return r;      // data bytes are 7-bit; a status byte inside the frame is not a well-formed message
    uint8_t man = m[1], dev = m[2];
    if(man == 0x7E || man == 0x7F) {
        bool addressed = dev == 0x7F || dev == devid;
        if(man == 0x7E && n == 6 && m[3] == 0x09 && (m[4] == 0x01 || m[4] == 0x02)) { if(!addressed) return r; r.verdict = 1; r.kind = m[4] == 1 ? R_GM_ON : R_GM_OFF; return r; }
        if(man == 0x7F && n == 8 && m[3] == 0x04 && m[4] == 0x01) { if(!addressed) return r; r.verdict = 1; r.kind = R_MASTER; r.a = m[6]; return r; }
        return r;
    }
    if(man == 0x41) {
        if(n != 11 || m[3] != 0x42 || m[4] != 0x12) return r;
        if(m[9] != roland_sum(&m[5], 4)) return r;
        bool bc = dev == 0x7F; bool mine = (dev & 0xF0) == 0x10 && (unsigned)(dev & 0x0F) == devid;
        if(!bc && !mine) return r;
        unsigned addr = (m[5] << 16) | (m[6] << 8) | m[7];
        if(addr == 0x40007F || addr == 0x00007F) { r.kind = R_GS; r.verdict = (mine && m[8] == 0x00 && addr == 0x40007F) ? 1 : 2; if(addr == 0x00007F && mine) r.verdict = (m[8] <= 1) ? 1 : 2; return r; }
        if((addr & 0xFFF0FF) == 0x401015) { r.kind = R_DRUM; r.a = (addr >> 8) & 0x0F; r.b = m[8]; r.verdict = (mine && m[8] <= 2) ? 1 : 2; return r; }
        return r;
    }
    if(man == 0x43) {
        if(n != 9 || m[3] != 0x4C || m[4] != 0x00 || m[5] != 0x00 || m[6] != 0x7E) return r;
        bool bc = dev == 0x7F; bool mine = (dev & 0xF0) == 0x10 && (unsigned)(dev & 0x0F) == devid;
        if(!bc && !mine) return r;
        r.kind = R_XG; r.verdict = (mine && m[7] == 0x00) ? 1 : 2; return r;
    }
    return r;
}

static Bytes msg(int which, unsigned devid) {
    uint8_t d = (uint8_t)devid, rd = (uint8_t)(0x10 | devid);
    switch(which) {
    case 0: return {0xF0, 0x7E, d, 0x09, 0x01, 0xF7};
    case 1: return {0xF0, 0x7E, d, 0x09, 0x02, 0xF7};
    case 2: return {0xF0, 0x7F, d, 0x04, 0x01, 0x11, 0x55, 0xF7};
    case 3: { Bytes m = {0xF0, 0x41, rd, 0x42, 0x12, 0x40, 0x00, 0x7F, 0x00, 0x00, 0xF7}; m[9] = roland_sum(&m[5], 4); return m; }
    case 4: { Bytes m = {0xF0, 0x41, rd, 0x42, 0x12, 0x00, 0x00, 0x7F, 0x01, 0x00, 0xF7}; m[9] = roland_sum(&m[5], 4); return m; }
    case 5: { Bytes m = {0xF0, 0x41, rd, 0x42, 0x12, 0x40, 0x13, 0x15, 0x02, 0x00, 0xF7}; m[9] = roland_sum(&m[5], 4); return m; }
    default: return {0xF0, 0x43, rd, 0x4C, 0x00, 0x00, 0x7E, 0x00, 0xF7};
    }
}
static const int NMSG = 7;

struct Prior { pl::Instance I; bool fresh = false; };

static void prepare(pl::Instance &I, int prior, unsigned devid, const Bytes *early = nullptr) {
    I.create(44100); OPN2_MIDIPlayer *d = I.dev;
    opn2_setNumChips(d, 1); pl::must(opn2_openBankData(d, g_bank.data(), (long)g_bank.size()), "opn2_openBankData(generated bank)", d);
    opn2_setDeviceIdentifier(d, devid);
    // priors 6..9: the device id was set before a call that re-initialises MIDI state (it is an instance setting and stays)
    if(prior == 6) opn2_reset(d); else if(prior == 7) { static const uint8_t smf[] = {'M','T','h','d',0,0,0,6,0,0,0,1,0,96,'M','T','r','k',0,0,0,8,0,0x90,60,100,96,0x80,60,0}; opn2_openData(d, smf, sizeof smf); }
    else if(prior == 8) opn2_switchEmulator(d, OPNMIDI_EMU_GENS); else if(prior == 9) { opn2_rt_resetState(d); opn2_panic(d); opn2_setNumChips(d, 2); }
    int mode = prior % 3;
    Bytes m = mode == 0 ? msg(0, devid) : mode == 1 ? msg(3, devid) : msg(6, devid);
    opn2_rt_systemExclusive(d, m.data(), m.size());
    if(early) opn2_rt_systemExclusive(d, early->data(), early->size());   // reference order: the message under test arrives before the notes are struck
    if(prior >= 3) {
        for(int ch = 0; ch < 3; ch++) { opn2_rt_controllerChange(d, (OPN2_UInt8)ch, 7, 90); opn2_rt_controllerChange(d, (OPN2_UInt8)ch, 11, 70); opn2_rt_controllerChange(d, (OPN2_UInt8)ch, 10, 20); opn2_rt_pitchBend(d, (OPN2_UInt8)ch, 9000); opn2_rt_patchChange(d, (OPN2_UInt8)ch, 1);
            // every other controller a mode switch has to bring back to its default: modulation, portamento, brightness, soft pedal, channel pressure, the bend range (RPN 0) and, last, an NRPN selection left open
            opn2_rt_controllerChange(d, (OPN2_UInt8)ch, 1, 30); opn2_rt_controllerChange(d, (OPN2_UInt8)ch, 5, 40); opn2_rt_controllerChange(d, (OPN2_UInt8)ch, 65, 127); opn2_rt_controllerChange(d, (OPN2_UInt8)ch, 74, 50); opn2_rt_controllerChange(d, (OPN2_UInt8)ch, 67, 127);
            opn2_rt_channelAfterTouch(d, (OPN2_UInt8)ch, 20);
            opn2_rt_controllerChange(d, (OPN2_UInt8)ch, 101, 0); opn2_rt_controllerChange(d, (OPN2_UInt8)ch, 100, 0); opn2_rt_controllerChange(d, (OPN2_UInt8)ch, 6, 5); opn2_rt_controllerChange(d, (OPN2_UInt8)ch, 38, 10);
            opn2_rt_controllerChange(d, (OPN2_UInt8)ch, 99, 1); opn2_rt_controllerChange(d, (OPN2_UInt8)ch, 98, 8); }
        opn2_rt_noteOn(d, 0, 60, 100);
        opn2_rt_controllerChange(d, 1, 64, 127); opn2_rt_noteOn(d, 1, 62, 90); opn2_rt_noteOff(d, 1, 62);
        opn2_rt_noteOn(d, 9, 40, 100);
        I.generate_ms(40);
    }
}
static const int NPRIOR = 10;

static void snapshot(pl::Instance &I, std::string &out) { vu::Ser s; pl::ser_player(I, s); s.u64(I.tap.nwrites); for(auto &c : I.tap.chips) s.raw(c.regs, sizeof c.regs); out.swap(s.s); }

// the controller values of one MIDI channel (everything a "controller reset" speaks about; bank select and program are selections, not controller values, and stay)
static std::string controllers_of(const OPNMIDIplay::MIDIchannel &c) {
    char b[512]; snprintf(b, sizeof b, "volume %u expression %u pan %u brightness %u bend %d bend-range %d/%d (%.9g) sustain %d soft %d modulation %u pressure %u poly-pressure-in-use %d portamento %u enable %d source %d rate %.9g vibrato speed %.9g depth %.9g delay %lld rpn-selection %u/%u nrpn %d",
        c.volume, c.expression, c.panning, c.brightness, c.bend, c.bendsense_msb, c.bendsense_lsb, c.bendsense, (int)c.sustain, (int)c.softPedal, c.vibrato, c.aftertouch, (int)c.noteAfterTouchInUse, c.portamento, (int)c.portamentoEnable, (int)c.portamentoSource, c.portamentoRate,
        c.vibspeed, c.vibdepth, (long long)c.vibdelay_us, c.lastmrpn, c.lastlrpn, (int)c.nrpn);
    return b;
}

static void run_case(const Bytes &m, int prior, unsigned devid, en::CaseOut &o) {
    // one prepared instance per (prior, devid) per process, re-created after any call that changed it
    static std::map<int, Prior *> pool;
    int key = prior * 16 + (int)devid;
    Prior *&P = pool[key];
    if(!P) { P = new Prior; prepare(P->I, prior, devid); P->fresh = true; }
    std::string before; snapshot(P->I, before);
    OPNMIDIplay &pp = *P->I.play();
    uint32_t mode0 = pp.m_synthMode;
    bool drum0[16]; for(int c = 0; c < 16; c++) drum0[c] = pp.m_midiChannels[(size_t)c].is_xg_percussion;
    // exact-size heap copy of the message
    uint8_t *blk = (uint8_t *)malloc(m.size() ? m.size() : 1); if(m.size()) memcpy(blk, m.data(), m.size());
    int ret = opn2_rt_systemExclusive(P->I.dev, blk, m.size());
    free(blk);
    std::string after; snapshot(P->I, after);
    Ref r = reference(m, devid);
    char b[300]; std::string hx = vu::hex(m); o.input_hex = hx;
    std::string ctx = " [message " + hx + ", device id " + std::to_string(devid) + ", prior state " + std::to_string(prior) + "]";
    bool changed = before != after;
    auto recycle = [&]() { delete P; P = nullptr; };
    if(ret != 0 && ret != 1) { snprintf(b, sizeof b, "opn2_rt_systemExclusive returned %d", ret); o.fail("C19/return-value", b + ctx); recycle(); return; }
    if(r.verdict == 0) {
        o.tags |= 1ull << T_REJECTED;
        if(ret != 0) { const char *why = (m.size() >= 3 && (m[1] == 0x7E || m[1] == 0x7F) && m.size() > (m[1] == 0x7E ? 6u : 8u)) ? "universal-wrong-length" : (m.size() >= 2 && m[1] == 0x41) ? "roland-malformed" : (m.size() >= 2 && m[1] == 0x43) ? "yamaha-malformed" : "malformed";
            o.fail(std::string("C19/accepted-malformed/") + why, "a message that is not well-formed / not addressed to this device was reported as accepted" + ctx); recycle(); return; }
        if(changed) { o.fail("C19/rejected-but-state-changed", "the message was reported as rejected but the synthesizer state or the chip registers changed" + ctx); recycle(); return; }
        o.nontrivial = true; return;
    }
    if(r.verdict == 1 && ret != 1) { o.fail("C19/valid-message-rejected", "a well-formed, correctly addressed message was rejected" + ctx); if(changed) recycle(); return; }
    if(r.verdict == 2) o.tags |= 1ull << T_EITHER; else o.tags |= 1ull << T_ACCEPTED;
    if(ret == 0) { if(changed) { o.fail("C19/rejected-but-state-changed", "rejected (allowed for this encoding) but the state changed" + ctx); recycle(); } o.nontrivial = true; return; }
    // accepted: documented effect
    OPN2 &y = *pp.m_synth;
    switch(r.kind) {
    case R_GM_ON: if(pp.m_synthMode != OPNMIDIplay::Mode_GM) o.fail("C19/effect/gm-on", "GM System On accepted but the mode is not GM" + ctx); break;
    case R_GM_OFF: break;   // what "GM off" switches to is not documented: only acceptance + controller reset are required
    case R_GS: if(pp.m_synthMode != OPNMIDIplay::Mode_GS) o.fail("C19/effect/gs", "GS reset accepted but the mode is not GS" + ctx); break;
    case R_XG: if(pp.m_synthMode != OPNMIDIplay::Mode_XG) o.fail("C19/effect/xg", "XG System On accepted but the mode is not XG" + ctx); break;
    case R_MASTER:
        // "master volume" has an audible effect at once: the levels of the notes that are sounding must be those the same notes get when the message arrives before they are struck
        if(prior >= 3 && y.m_masterVolume == r.a) { pl::Instance E; prepare(E, prior, devid, &m);
            // (only chip channels whose note still has its key down: a released note that a pedal keeps sounding is no longer among the channel's notes, and nothing says a volume change must reach it)
            std::set<int> keydown; for(size_t cc = 0; cc < pp.m_chipChannels.size(); cc++) for(auto j = pp.m_chipChannels[cc].users.begin(); !j.is_end(); ++j) if(j->value.sustained == 0) keydown.insert((int)cc);
            for(size_t c = 0; c < P->I.tap.chips.size() && c < E.tap.chips.size() && !o.bad; c++) for(int port = 0; port < 2 && !o.bad; port++) for(int reg = 0x40; reg < 0x50; reg++) if(keydown.count((int)c * 6 + port * 3 + (reg & 3)) && (reg & 3) != 3 && P->I.tap.chips[c].regs[port][reg] != E.tap.chips[c].regs[port][reg]) {
                snprintf(b, sizeof b, "master volume %d accepted, but total-level register %02X (chip %zu port %d) of a sounding note is %u; with the message sent before the notes it is %u", r.a, reg, c, port, P->I.tap.chips[c].regs[port][reg], E.tap.chips[c].regs[port][reg]); o.fail("C19/effect/master-volume-not-applied-to-sounding-notes", b + ctx); break; } }
        if(y.m_masterVolume != r.a) { snprintf(b, sizeof b, "master volume is %u, message says %d", y.m_masterVolume, r.a); o.fail("C19/effect/master-volume", b + ctx); } if(pp.m_synthMode != mode0) o.fail("C19/effect/master-volume-changed-mode", "master volume changed the mode" + ctx); break;
    case R_DRUM: { static const uint8_t map[16] = {9, 0, 1, 2, 3, 4, 5, 6, 7, 8, 10, 11, 12, 13, 14, 15}; bool want = r.b == 1 || r.b == 2; if(r.b <= 2 && pp.m_midiChannels[map[r.a]].is_xg_percussion != want) { snprintf(b, sizeof b, "drum-part flag of MIDI channel %u is %d, message (part %d, value %d) says %d", map[r.a], (int)pp.m_midiChannels[map[r.a]].is_xg_percussion, r.a, r.b, (int)want); o.fail("C19/effect/drum-part", b + ctx); }
        // ... and of no other part
        for(int c = 0; c < 16 && !o.bad; c++) if(c != map[r.a] && pp.m_midiChannels[(size_t)c].is_xg_percussion != drum0[c]) { snprintf(b, sizeof b, "the message addresses part block %d (MIDI channel %u) but the drum-part flag of MIDI channel %d changed from %d to %d", r.a, map[r.a], c, (int)drum0[c], (int)pp.m_midiChannels[(size_t)c].is_xg_percussion); o.fail("C19/effect/drum-part-other-channel", b + ctx); }
        break; }
    default: break;
    }
    if(r.kind == R_GM_ON || r.kind == R_GM_OFF || r.kind == R_GS || r.kind == R_XG) {
        // controller reset
        // differential form of "controller reset": every controller value of every channel equals that of an instance that received nothing but this message
        if(!o.bad) { pl::Instance R; R.create(44100); opn2_setNumChips(R.dev, 1); opn2_openBankData(R.dev, g_bank.data(), (long)g_bank.size()); opn2_setDeviceIdentifier(R.dev, devid); opn2_rt_systemExclusive(R.dev, m.data(), m.size());
            for(size_t ch = 0; ch < 16 && !o.bad; ch++) { std::string got = controllers_of(pp.m_midiChannels[ch]), want = controllers_of(R.play()->m_midiChannels[ch]);
                if(got != want) o.fail("C19/effect/controller-reset", "mode switch accepted but the controllers of channel " + std::to_string(ch) + " are not those of a freshly reset channel: [" + got + "] expected [" + want + "]" + ctx); } }
        for(int ch = 0; ch < 3 && !o.bad; ch++) { const OPNMIDIplay::MIDIchannel &c = pp.m_midiChannels[(size_t)ch]; if(c.expression != 127 || c.bend != 0 || c.panning != 64 || c.sustain) { snprintf(b, sizeof b, "mode switch accepted but channel %d controllers were not reset (expression %u, bend %d, pan %u, sustain %d)", ch, c.expression, c.bend, c.panning, (int)c.sustain); o.fail("C19/effect/controller-reset", b + ctx); } }
    }
    o.nontrivial = true;
    recycle();
}

static const uint8_t SG[16] = {0xF0, 0xF7, 0x7E, 0x7F, 0x41, 0x43, 0x10, 0x42, 0x12, 0x4C, 0x40, 0x00, 0x01, 0x04, 0x09, 0x15};

} // namespace

int main(int argc, char **argv) {
    en::Args a = en::parse_args(argc, argv);
    bool thorough = a.tier == "thorough";
    pl::install_hooks(true);
    { pl::BankSpec m; pl::InsSpec s; s.id = 1; for(int i = 0; i < 128; i++) m.ins[i] = s; pl::BankSpec p; p.percussive = true; pl::InsSpec dd; dd.id = 2; dd.drum_key = 40; for(int i = 27; i < 88; i++) p.ins[i] = dd; g_bank = pl::make_wopn({m, p}); }
    std::vector<en::Family> fams;
    { en::Family F; F.name = "canonical"; F.count = NMSG * NPRIOR * 16; F.chunk = 16; F.describe = "the 7 recognised messages x 10 prior states (GM/GS/XG x {default, non-default controllers + sounding + pedal-held + drum note}; device id set before {opn2_reset, a song load, an emulator switch, reset-state + panic + chip count}) x device ids 0..15";
      F.run = [](uint64_t i, en::CaseOut &o) { int w = (int)(i % NMSG), pr = (int)((i / NMSG) % NPRIOR); unsigned id = (unsigned)(i / NMSG / NPRIOR); Bytes m = msg(w, id); if(i % 97 == 0) o.sample = vu::hex(m) + " id " + std::to_string(id); run_case(m, pr, id, o); };
      fams.push_back(F); }
    { en::Family F; F.name = "drum_part_all_blocks"; F.count = 16 * 4 * 4 * 2; F.chunk = 16; F.describe = "the GS 'use for rhythm part' message (40 1x 15 vv, valid checksum) for every part block x = 0..15 x value {0,1,2,3} x prior state {GS default, GS busy, XG busy, GM default} x device id {0,5}: the flag of the addressed part's MIDI channel (block 0 = part 10, blocks 1..9 = parts 1..9, A..F = parts 11..16) follows the value, the flags of all other channels stay";
      F.run = [](uint64_t i, en::CaseOut &o) { static const int PR[] = {1, 4, 5, 0}; unsigned blk = (unsigned)(i % 16), val = (unsigned)((i / 16) % 4); int pr = PR[(i / 64) % 4]; unsigned id = (i / 256) ? 5 : 0;
        Bytes m = {0xF0, 0x41, (uint8_t)(0x10 | id), 0x42, 0x12, 0x40, (uint8_t)(0x10 | blk), 0x15, (uint8_t)val, 0x00, 0xF7}; m[9] = roland_sum(&m[5], 4); if(i % 37 == 0) o.sample = vu::hex(m); run_case(m, pr, id, o); };
      fams.push_back(F); }
    { uint64_t tot = 0; for(int w = 0; w < NMSG; w++) tot += msg(w, 0).size();
      en::Family F; F.name = "single_byte"; F.count = tot * 256 * 2 * 2; F.chunk = 512; F.describe = "every single-byte substitution (x256) at every position of the 7 messages x device id {0,5} x prior state {GS default, XG busy}";
      F.run = [tot](uint64_t i, en::CaseOut &o) { unsigned v = i % 256; uint64_t p = (i / 256) % tot; unsigned id = ((i / 256 / tot) & 1) ? 5 : 0; int pr = (i / 256 / tot / 2) ? 5 : 1; int w = 0; while(p >= msg(w, id).size()) { p -= msg(w, id).size(); w++; } Bytes m = msg(w, id); if(m[p] == v) { o.skip = true; return; } m[p] = (uint8_t)v; run_case(m, pr, id, o); };
      fams.push_back(F); }
    { uint64_t tot = 0; for(int w = 0; w < NMSG; w++) { size_t n = msg(w, 0).size(); tot += n * (n - 1) / 2; }
      en::Family F; F.name = "two_bytes"; F.count = tot * 256; F.chunk = 512; F.describe = "every substitution of two positions by values of the 16-byte alphabet {F0 F7 7E 7F 41 43 10 42 12 4C 40 00 01 04 09 15} in the 7 messages (device id 0, prior state XG busy)";
      F.run = [](uint64_t i, en::CaseOut &o) { unsigned v1 = SG[i % 16], v2 = SG[(i / 16) % 16]; uint64_t p = i / 256; int w = 0; for(;; w++) { size_t n = msg(w, 0).size(); if(p < n * (n - 1) / 2) break; p -= n * (n - 1) / 2; } Bytes m = msg(w, 0); size_t n = m.size(), x = 0, y = 1; for(uint64_t k = 0; k < p; k++) { y++; if(y >= n) { x++; y = x + 1; } } if(m[x] == v1 && m[y] == v2) { o.skip = true; return; } m[x] = (uint8_t)v1; m[y] = (uint8_t)v2; run_case(m, 5, 0, o); };
      fams.push_back(F); }
    { en::Family F; F.name = "length"; F.count = NMSG * (12 + 16 + 256 + 16 * 16); F.chunk = 64; F.describe = "every truncation of the 7 messages, every 1-byte (x16 alphabet, inserted before F7 and appended after it) and 2-byte (16x16 before F7) extension";
      F.run = [](uint64_t i, en::CaseOut &o) { int w = (int)(i % NMSG); uint64_t r = i / NMSG; Bytes m = msg(w, 3);
        if(r < 12) { if(r >= m.size()) { o.skip = true; return; } m.resize((size_t)r); }
        else if(r < 28) { m.insert(m.end() - 1, SG[r - 12]); }
        else if(r < 28 + 256) { uint64_t q = r - 28; if(q < 16) m.push_back(SG[q]); else if(q < 32) { m.insert(m.begin(), SG[q - 16]); } else { o.skip = true; return; } }
        else { uint64_t q = r - 28 - 256; m.insert(m.end() - 1, SG[q % 16]); m.insert(m.end() - 1, SG[q / 16]); }
        if(i % 501 == 0) o.sample = vu::hex(m); run_case(m, 4, 3, o); };
      fams.push_back(F); }
    { en::Family F; F.name = "checksum_device"; F.count = (uint64_t)3 * 128 * 2 + (uint64_t)NMSG * 128 * 16; F.chunk = 256; F.describe = "every checksum value 0..127 of the 3 Roland messages (2 prior states) and every device byte 0..127 of the 7 messages against device ids 0..15";
      F.run = [](uint64_t i, en::CaseOut &o) { if(i < 3 * 128 * 2) { int w = 3 + (int)(i % 3); unsigned cs = (unsigned)((i / 3) % 128); int pr = (i / 384) ? 4 : 1; Bytes m = msg(w, 0); if(m[9] == cs) { /* the valid one */ } m[9] = (uint8_t)cs; run_case(m, pr, 0, o); }
        else { uint64_t r = i - 3 * 128 * 2; int w = (int)(r % NMSG); unsigned dv = (unsigned)((r / NMSG) % 128), id = (unsigned)(r / NMSG / 128); Bytes m = msg(w, id); m[2] = (uint8_t)dv; run_case(m, 2, id, o); } };
      fams.push_back(F); }
    { int L = thorough ? 7 : 5; uint64_t tot = 0, pw = 1; for(int l = 0; l <= L; l++) { tot += pw; pw *= 16; }
      en::Family F; F.name = "alphabet_strings"; F.count = tot; F.chunk = 4096; F.describe = "every string over the 16-byte alphabet up to length " + std::to_string(L) + " (device id 0 = alphabet byte 00, prior state GS busy)";
      F.run = [](uint64_t i, en::CaseOut &o) { int len = 0; uint64_t pw2 = 1, r = i; while(r >= pw2) { r -= pw2; pw2 *= 16; len++; } Bytes m; for(int k = 0; k < len; k++) { m.push_back(SG[r % 16]); r /= 16; } if(i % 100003 == 1) o.sample = vu::hex(m); run_case(m, 4, 0, o); };
      fams.push_back(F); }
    return en::run_main(argc, argv, "C19", fams, TAGS, "non-trivial: the call returned and the verdict (accept with the documented effect / reject with an identical full snapshot and no register write) was checked against the reference predicate");
}
