// C10 — programmed pitch = key + bend*range + instrument offset (in tune), finite-domain sweep (E2)
// through the public real-time API with the register tap.
#include "player.hpp"
#include "enumx.hpp"

namespace {

enum { T_NATIVE, T_ABOVE_NATIVE, T_NT };
static const std::vector<std::string> TAGS = {"pitches_inside_native_range_checked", "pitches_above_native_range_skipped"};
static std::vector<uint8_t> g_base;

static OPN2_Instrument mk_ins(int note_offset, int drum_key) {
    OPN2_Instrument i; memset(&i, 0, sizeof i); i.fbalg = 7; i.note_offset = (OPN2_SInt16)note_offset; i.percussion_key_number = (OPN2_UInt8)drum_key;
    for(int op = 0; op < 4; op++) { i.operators[op].dtfm_30 = 1; i.operators[op].level_40 = 10; i.operators[op].rsatk_50 = 0x1F; i.operators[op].susrel_80 = 0x0F; }
    i.delay_on_ms = 40000; i.delay_off_ms = 100; return i;
}
static const int RANGES[][2] = {{0, 0}, {1, 0}, {2, 0}, {12, 0}, {24, 0}, {127, 127}};
static const int OFFSETS[] = {-24, -12, 0, 12, 24};

static double clock_of(int family) { return family ? 7987200.0 : 7670454.0; }
// frequency denoted by the block/F-number pair (YM2612/YM2608 application manual)
static double freq_of(unsigned a4, unsigned a0, int family) { unsigned fnum = ((a4 & 7) << 8) | a0; unsigned block = (a4 >> 3) & 7; return (double)fnum * ldexp(1.0, (int)block - 1) * clock_of(family) / (144.0 * 1048576.0); }
static double step_of(unsigned a4, int family) { unsigned block = (a4 >> 3) & 7; return ldexp(1.0, (int)block - 1) * clock_of(family) / (144.0 * 1048576.0); }

struct Sweep { int family, range, offset, chan; };

static bool setup(pl::Instance &I, const Sweep &s, int drum_key) {
    I.create(44100); OPN2_MIDIPlayer *d = I.dev; opn2_setNumChips(d, 1);
    if(opn2_openBankData(d, g_base.data(), (long)g_base.size()) != 0) return false;
    opn2_setChipType(d, s.family);
    OPN2_BankId mid = {0, 0, 0}, pid = {1, 0, 0}; OPN2_Bank mb, pb;
    if(opn2_getBank(d, &mid, OPNMIDI_Bank_Create, &mb) || opn2_getBank(d, &pid, OPNMIDI_Bank_Create, &pb)) return false;
    OPN2_Instrument ins = mk_ins(OFFSETS[s.offset], 0); opn2_setInstrument(d, &mb, 0, &ins);
    for(int k = 0; k < 128; k++) { OPN2_Instrument di = mk_ins(OFFSETS[s.offset], drum_key > 0 ? drum_key : k); opn2_setInstrument(d, &pb, (unsigned)k, &di); }
    uint8_t ch = (uint8_t)s.chan;
    opn2_rt_controllerChange(d, ch, 101, 0); opn2_rt_controllerChange(d, ch, 100, 0); opn2_rt_controllerChange(d, ch, 6, (OPN2_UInt8)RANGES[s.range][0]); opn2_rt_controllerChange(d, ch, 38, (OPN2_UInt8)RANGES[s.range][1]);
    I.tap.logging = false;
    return true;
}

static void check_pitch(pl::Instance &I, int family, double p, const std::string &what, en::CaseOut &o, double &lastf, bool monotone_check) {
    // the note sits on chip channel 0 (only note)
    const pl::ChipShadow &c = I.tap.chips[0];
    unsigned a4 = c.regs[0][0xA4], a0 = c.regs[0][0xA0];
    double nominal = 440.0 * pow(2.0, (p - 69.0) / 12.0);
    char b[300];
    if(nominal < 6600.0 && nominal > 8.0) {
        o.tags |= 1ull << T_NATIVE;
        unsigned mul = c.regs[0][0x30] & 0x0F;
        if(mul != 1) { snprintf(b, sizeof b, "%s: multiplier register changed to %u inside the native range (p=%.4f, %.2f Hz)", what.c_str(), mul, p, nominal); o.fail("C10/multiplier-inside-native-range", b); return; }
        double f = freq_of(a4, a0, family), st = step_of(a4, family);
        if(fabs(f - nominal) > st * 1.0001) { snprintf(b, sizeof b, "%s: block/F-number %02X/%02X denote %.3f Hz, nominal %.3f Hz for p=%.4f (one F-number step = %.3f Hz)", what.c_str(), a4, a0, f, nominal, p, st); o.fail(family ? "C10/out-of-tune/opna" : "C10/out-of-tune/opn2", b); return; }
        if(monotone_check && f + 1e-9 < lastf) { snprintf(b, sizeof b, "%s: frequency fell from %.3f to %.3f Hz while p rose to %.4f", what.c_str(), lastf, f, p); o.fail("C10/not-monotone", b); return; }
        lastf = f;
    } else o.tags |= 1ull << T_ABOVE_NATIVE;
}

} // namespace

int main(int argc, char **argv) {
    en::Args a = en::parse_args(argc, argv);
    bool thorough = a.tier == "thorough";
    pl::install_hooks(true);
    { pl::BankSpec m; pl::InsSpec s; s.id = 31; m.ins[127] = s; g_base = pl::make_wopn({m}); }
    std::vector<en::Family> fams;
    static int STEP; STEP = thorough ? 1 : 16;
    { en::Family F; F.name = "key_bend_grid"; F.count = 2 * 6 * 5 * 128 * 2; F.chunk = 4; F.budget_s = 120; F.describe = std::string("chip family {OPN2, OPNA} x bend range {0,1,2,12,24 semitones, MSB 127/LSB 127} x note offset {-24,-12,0,+12,+24} x key 0..127 x channel {melodic, percussion with drum key = key}; on each: ") + (thorough ? "all 16384 bend values upwards, then back down in steps of 8 with the key held" : "every 16th bend value plus 0, 8191, 8192, 8193, 16383, then back down in steps of 128") + " in ascending order";
      F.run = [](uint64_t i, en::CaseOut &o) { Sweep s; s.family = (int)(i % 2); s.range = (int)((i / 2) % 6); s.offset = (int)((i / 12) % 5); int key = (int)((i / 60) % 128); s.chan = (i / 7680) ? 9 : 0;
        pl::Instance I; if(!setup(I, s, 0)) { o.fail("C10/harness", "setup failed"); return; }
        OPN2_MIDIPlayer *d = I.dev; uint8_t ch = (uint8_t)s.chan;
        double range = RANGES[s.range][0] + RANGES[s.range][1] / 128.0;
        char w[160]; double lastf = -1;
        opn2_rt_pitchBend(d, ch, 0);
        if(opn2_rt_noteOn(d, ch, (OPN2_UInt8)key, 100) != 1) { o.fail("C10/note-rejected", "note-on rejected"); return; }
        auto one = [&](int bend) { opn2_rt_pitchBend(d, ch, (OPN2_UInt16)bend); double p = key + OFFSETS[s.offset] + (bend - 8192) / 8192.0 * range;
            snprintf(w, sizeof w, "%s key %d offset %d range %.3f bend %d channel %d", s.family ? "OPNA" : "OPN2", key, OFFSETS[s.offset], range, bend, s.chan); check_pitch(I, s.family, p, w, o, lastf, true); };
        // key-on pitch (bend 0 = lowest)
        { double p = key + OFFSETS[s.offset] + (0 - 8192) / 8192.0 * range; snprintf(w, sizeof w, "%s key %d offset %d range %.3f key-on at bend 0", s.family ? "OPNA" : "OPN2", key, OFFSETS[s.offset], range); check_pitch(I, s.family, p, w, o, lastf, false); if(o.bad) return; }
        for(int bend = 0; bend < 16384 && !o.bad; bend += STEP) { one(bend); if(STEP > 1 && bend == 8192 - STEP) { one(8191); if(!o.bad) one(8192); if(!o.bad) one(8193); bend = 8192; } }
        if(!o.bad) one(16383);
        // and back down with the key still held: a re-pitch that returns from above the native range must restore everything the excursion changed (multipliers)
        { int dstep = STEP * 8; double prevf = 1e18; for(int bend = 16383 - dstep; bend >= 0 && !o.bad; bend -= dstep) { opn2_rt_pitchBend(d, ch, (OPN2_UInt16)bend); double p = key + OFFSETS[s.offset] + (bend - 8192) / 8192.0 * range;
              snprintf(w, sizeof w, "%s key %d offset %d range %.3f bend %d (sweeping down) channel %d", s.family ? "OPNA" : "OPN2", key, OFFSETS[s.offset], range, bend, s.chan); double lf = -1; check_pitch(I, s.family, p, w, o, lf, false);
              if(!o.bad && lf >= 0) { if(lf > prevf + 1e-9) { char b2[300]; snprintf(b2, sizeof b2, "%s: frequency rose from %.3f to %.3f Hz while p fell", w, prevf, lf); o.fail("C10/not-monotone", b2); } prevf = lf; } } }
        if(i % 997 == 0) o.sample = w;
        o.units = (uint64_t)(16384 / STEP + 5 + 16384 / (STEP * 8));
        if(!o.bad) o.nontrivial = true; };
      fams.push_back(F); }
    { // the bend range is changed (RPN 0) while the wheel is off centre; the next key-on must use the range in force now
      static const int BENDS[] = {0, 2000, 8191, 12000, 16383};
      en::Family F; F.name = "range_change_after_bend"; F.count = 2 * 6 * 6 * 5 * 3; F.chunk = 8; F.budget_s = 60; F.describe = "chip family x bend range before {0,1,2,12,24,127.99} x bend range after (same set) x bend {0,2000,8191,12000,16383} x key {40,60,90}: pitch bend, then RPN 0 data entry (MSB, LSB), then note-on, then a second RPN change with the note held followed by a CC1 vibrato-free re-pitch through a bend of the same value";
      F.run = [](uint64_t i, en::CaseOut &o) { Sweep s; uint64_t r = i; s.family = (int)(r % 2); r /= 2; s.range = (int)(r % 6); r /= 6; int range2 = (int)(r % 6); r /= 6; int bend = BENDS[r % 5]; r /= 5; static const int KEYS[] = {40, 60, 90}; int key = KEYS[r % 3]; s.offset = 2; s.chan = 0;
        pl::Instance I; if(!setup(I, s, 0)) { o.fail("C10/harness", "setup failed"); return; } OPN2_MIDIPlayer *d = I.dev; char w[200]; double lastf = -1;
        opn2_rt_pitchBend(d, 0, (OPN2_UInt16)bend);
        opn2_rt_controllerChange(d, 0, 101, 0); opn2_rt_controllerChange(d, 0, 100, 0); opn2_rt_controllerChange(d, 0, 6, (OPN2_UInt8)RANGES[range2][0]); opn2_rt_controllerChange(d, 0, 38, (OPN2_UInt8)RANGES[range2][1]);
        double r2 = RANGES[range2][0] + RANGES[range2][1] / 128.0;
        if(opn2_rt_noteOn(d, 0, (OPN2_UInt8)key, 100) != 1) { o.fail("C10/note-rejected", "note-on rejected"); return; }
        snprintf(w, sizeof w, "%s key %d: bend %d sent under range %.3f, range then set to %.3f, key-on", s.family ? "OPNA" : "OPN2", key, bend, RANGES[s.range][0] + RANGES[s.range][1] / 128.0, r2);
        check_pitch(I, s.family, key + (bend - 8192) / 8192.0 * r2, w, o, lastf, false);
        if(i % 97 == 0) o.sample = w; if(!o.bad) o.nontrivial = true; };
      fams.push_back(F); }
    { // the statement quantifies over every key-on and re-pitch, whatever else lives in the process: a second handle of the OTHER chip family (its own clock) is created / reset around the observed one's notes
      en::Family F; F.name = "other_family_handle_alive"; F.count = 2 * 128 * 3; F.chunk = 16; F.budget_s = 60; F.describe = "chip family {OPN2, OPNA} x key 0..127 x order {other-family handle created before, created after the observed handle's setup, reset between the observed handle's key-on and its bend}: key-on, bend up, bend down on the observed handle and a key-on on the other handle are each compared with their own family's formula";
      F.run = [](uint64_t i, en::CaseOut &o) { Sweep s; s.family = (int)(i % 2); s.range = 2; s.offset = 2; s.chan = 0; int key = (int)((i / 2) % 128); int order = (int)(i / 256); Sweep t = s; t.family = 1 - s.family;
        pl::Instance A, B; char w[200]; double lf = -1;
        if(order == 0) { if(!setup(B, t, 0)) { o.fail("C10/harness", "setup"); return; } }
        if(!setup(A, s, 0)) { o.fail("C10/harness", "setup"); return; }
        if(order != 0) { if(!setup(B, t, 0)) { o.fail("C10/harness", "setup"); return; } }
        if(opn2_rt_noteOn(A.dev, 0, (OPN2_UInt8)key, 100) != 1) { o.fail("C10/note-rejected", "note-on rejected"); return; }
        snprintf(w, sizeof w, "%s key %d key-on with a live %s handle (order %d)", s.family ? "OPNA" : "OPN2", key, t.family ? "OPNA" : "OPN2", order); check_pitch(A, s.family, key, w, o, lf, false); if(o.bad) return;
        if(order == 2) opn2_reset(B.dev);
        if(opn2_rt_noteOn(B.dev, 0, (OPN2_UInt8)key, 100) != 1) { o.fail("C10/note-rejected", "note-on rejected"); return; }
        snprintf(w, sizeof w, "%s key %d key-on on the second handle (order %d)", t.family ? "OPNA" : "OPN2", key, order); lf = -1; check_pitch(B, t.family, key, w, o, lf, false); if(o.bad) return;
        opn2_rt_pitchBend(A.dev, 0, 12288); snprintf(w, sizeof w, "%s key %d bend +1 semitone after the %s handle played (order %d)", s.family ? "OPNA" : "OPN2", key, t.family ? "OPNA" : "OPN2", order); lf = -1; check_pitch(A, s.family, key + 1.0, w, o, lf, false); if(o.bad) return;
        opn2_rt_pitchBend(B.dev, 0, 4096); snprintf(w, sizeof w, "%s key %d bend -1 semitone on the second handle (order %d)", t.family ? "OPNA" : "OPN2", key, order); lf = -1; check_pitch(B, t.family, key - 1.0, w, o, lf, false); if(o.bad) return;
        if(i % 97 == 0) o.sample = w; o.units = 4; o.nontrivial = true; };
      fams.push_back(F); }
    { en::Family F; F.name = "drum_key"; F.count = 2 * 255 * 3; F.chunk = 16; F.budget_s = 60; F.describe = "percussion channel: every value 1..255 of the instrument's fixed-key field (1..127: that key; 128..255: key field-128, so 128 is key 0) fixes the pitch whatever MIDI key {35,60,100} is played, OPN2/OPNA";
      F.run = [](uint64_t i, en::CaseOut &o) { Sweep s; s.family = (int)(i % 2); s.range = 2; s.offset = 2; s.chan = 9; int field = 1 + (int)((i / 2) % 255); int dk = field; static const int KEYS[] = {35, 60, 100}; int key = KEYS[i / 510];
        pl::Instance I; if(!setup(I, s, dk)) { o.fail("C10/harness", "setup failed"); return; } double lastf = -1; char w[120];
        if(opn2_rt_noteOn(I.dev, 9, (OPN2_UInt8)key, 100) != 1) { o.fail("C10/note-rejected", "drum note rejected"); return; }
        snprintf(w, sizeof w, "%s fixed-key field %d played with MIDI key %d", s.family ? "OPNA" : "OPN2", field, key); check_pitch(I, s.family, field >= 128 ? field - 128 : field, w, o, lastf, false); if(i % 97 == 0) o.sample = w; if(!o.bad) o.nontrivial = true; };
      fams.push_back(F); }
    { en::Family F; F.name = "bend_all_keydown_notes"; F.count = 2 * 64 * 2; F.chunk = 8; F.budget_s = 60; F.describe = "3 key-down notes + 1 pedal-held note on a channel (+1 note on another channel): one pitch-bend message must re-write A4/A0 for exactly the key-down notes of that channel, in that call; 64 bend values x 2 families x {no sostenuto, sostenuto pedal (CC66) pressed while the three keys are down: they are still key-down notes}";
      F.run = [](uint64_t i, en::CaseOut &o) { Sweep s; s.family = (int)(i % 2); s.range = 2; s.offset = 2; s.chan = 0; pl::Instance I; if(!setup(I, s, 0)) { o.fail("C10/harness", "setup"); return; }
        OPN2_MIDIPlayer *d = I.dev; int bend = (int)((i / 2) % 64) * 256 + 7; bool sostenuto = i >= 128;
        opn2_rt_noteOn(d, 0, 50, 100); opn2_rt_noteOn(d, 0, 60, 100); opn2_rt_noteOn(d, 0, 70, 100);
        if(sostenuto) opn2_rt_controllerChange(d, 0, 66, 127);   // the three keys stay down: sostenuto only decides what happens when they are released
        opn2_rt_controllerChange(d, 0, 64, 127); opn2_rt_noteOn(d, 0, 80, 100); opn2_rt_noteOff(d, 0, 80);   // pedal-held
        opn2_rt_noteOn(d, 1, 65, 100);                                                                     // other channel
        I.tap.logging = true; I.tap.log.clear();
        opn2_rt_pitchBend(d, 0, (OPN2_UInt16)bend);
        std::set<int> touched; for(auto &w : I.tap.log) if(!w.kind && (w.reg & 0xFC) == 0xA4) touched.insert(w.port * 3 + (w.reg & 3));
        // which chip channels hold the key-down notes of MIDI channel 0?
        OPNMIDIplay &p = *I.play(); std::set<int> want; std::set<int> held;
        for(size_t c = 0; c < p.m_chipChannels.size(); c++) for(auto j = p.m_chipChannels[c].users.begin(); !j.is_end(); ++j) { // key down = the MIDI channel still lists the note and the note lists this chip channel (a released, pedal-held note is only a user of the chip channel)
            bool keydown = false; if(j->value.loc.MidCh == 0) { auto k = p.m_midiChannels[0].find_activenote(j->value.loc.note); keydown = !k.is_end() && k->value.phys_find((unsigned)c) != nullptr; }
            if(keydown) want.insert((int)c); else held.insert((int)c); }
        char b[200];
        if(want.size() != 3) { o.fail("C10/harness", "expected 3 key-down notes"); return; }
        for(int c : want) if(!touched.count(c)) { snprintf(b, sizeof b, "pitch bend %d did not re-pitch the key-down note on chip channel %d in the same call%s", bend, c, sostenuto ? " (sostenuto pedal pressed while the key is down)" : ""); o.fail(sostenuto ? "C10/bend-missed-keydown-note/sostenuto" : "C10/bend-missed-keydown-note", b); return; }
        for(int c : held) if(touched.count(c)) { snprintf(b, sizeof b, "pitch bend %d re-pitched chip channel %d, which holds a pedal-held note or a note of another MIDI channel", bend, c); o.fail("C10/bend-touched-other-note", b); return; }
        // and each re-pitched note is in tune
        for(int c : want) { const pl::ChipShadow &cs = I.tap.chips[0]; int port = c / 3, cc = c % 3; unsigned a4 = cs.regs[port][0xA4 + cc], a0 = cs.regs[port][0xA0 + cc];
            int key = -1; for(auto j = p.m_chipChannels[(size_t)c].users.begin(); !j.is_end(); ++j) key = j->value.loc.note;
            double pp = key + (bend - 8192) / 8192.0 * 2.0, nominal = 440.0 * pow(2.0, (pp - 69.0) / 12.0), f = freq_of(a4, a0, s.family);
            if(fabs(f - nominal) > step_of(a4, s.family) * 1.0001) { snprintf(b, sizeof b, "key %d after bend %d: %.3f Hz, nominal %.3f Hz", key, bend, f, nominal); o.fail("C10/out-of-tune/after-bend", b); return; } }
        o.sample = "bend " + std::to_string(bend) + " with 3 key-down + 1 pedal-held note" + (sostenuto ? ", sostenuto pressed" : ""); o.nontrivial = true; };
      fams.push_back(F); }
    { en::Family F; F.name = "portamento_endpoints"; F.count = 2 * 20 * 20; F.chunk = 16; F.budget_s = 60; F.describe = "portamento on: the second note starts at the first key's pitch and ends exactly at its own key's pitch (20 x 20 key pairs, OPN2/OPNA, portamento time 1)";
      F.run = [](uint64_t i, en::CaseOut &o) { Sweep s; s.family = (int)(i % 2); s.range = 2; s.offset = 2; s.chan = 0; int k1 = 30 + 4 * (int)((i / 2) % 20), k2 = 32 + 4 * (int)(i / 40);
        pl::Instance I; if(!setup(I, s, 0)) { o.fail("C10/harness", "setup"); return; } OPN2_MIDIPlayer *d = I.dev;
        opn2_rt_controllerChange(d, 0, 5, 1); opn2_rt_controllerChange(d, 0, 65, 127);
        opn2_rt_noteOn(d, 0, (OPN2_UInt8)k1, 100); opn2_rt_noteOff(d, 0, (OPN2_UInt8)k1);
        opn2_rt_noteOn(d, 0, (OPN2_UInt8)k2, 100);
        // the gliding note: find its chip channel
        OPNMIDIplay &p = *I.play(); int c = -1; for(size_t x = 0; x < p.m_chipChannels.size(); x++) for(auto j = p.m_chipChannels[x].users.begin(); !j.is_end(); ++j) if(j->value.loc.note == k2) c = (int)x;
        if(c < 0) { o.fail("C10/harness", "gliding note not found"); return; }
        auto fr = [&]() { const pl::ChipShadow &cs = I.tap.chips[0]; int port = c / 3, cc = c % 3; return std::make_pair((unsigned)cs.regs[port][0xA4 + cc], (unsigned)cs.regs[port][0xA0 + cc]); };
        char b[200]; auto st = fr(); double f0 = freq_of(st.first, st.second, s.family), n0 = 440.0 * pow(2.0, (k1 - 69.0) / 12.0);
        if(fabs(f0 - n0) > step_of(st.first, s.family) * 1.0001) { snprintf(b, sizeof b, "glide %d->%d starts at %.3f Hz, the previous key's pitch is %.3f Hz", k1, k2, f0, n0); o.fail("C10/glide/start-point", b); return; }
        I.generate_ms(3000);
        auto en_ = fr(); double f1 = freq_of(en_.first, en_.second, s.family), n1 = 440.0 * pow(2.0, (k2 - 69.0) / 12.0);
        if(fabs(f1 - n1) > step_of(en_.first, s.family) * 1.0001) { snprintf(b, sizeof b, "glide %d->%d ends at %.3f Hz, its key's pitch is %.3f Hz", k1, k2, f1, n1); o.fail("C10/glide/end-point", b); return; }
        o.nontrivial = true; };
      fams.push_back(F); }
    { // a glide that is under way when portamento is switched off (or its time / all controllers are reset) still belongs to the note: once time has passed the note sits on its own key, and a later bend re-pitches from there
      en::Family F; F.name = "portamento_changed_during_glide"; F.count = 2 * 10 * 10 * 4; F.chunk = 16; F.budget_s = 60; F.describe = "portamento on (time 40), 10 x 10 key pairs, OPN2/OPNA; 100 ms into the glide {nothing, CC65 off, CC5 = 0, CC121}; after 4 s more the pitch registers must denote the second key, and a bend of +1 semitone that key + 1";
      F.run = [](uint64_t i, en::CaseOut &o) { Sweep s; s.family = (int)(i % 2); s.range = 2; s.offset = 2; s.chan = 0; int k1 = 30 + 8 * (int)((i / 2) % 10), k2 = 34 + 8 * (int)((i / 20) % 10); int act = (int)(i / 200);
        pl::Instance I; if(!setup(I, s, 0)) { o.fail("C10/harness", "setup"); return; } OPN2_MIDIPlayer *d = I.dev;
        opn2_rt_controllerChange(d, 0, 5, 40); opn2_rt_controllerChange(d, 0, 65, 127);
        opn2_rt_noteOn(d, 0, (OPN2_UInt8)k1, 100); opn2_rt_noteOff(d, 0, (OPN2_UInt8)k1);
        opn2_rt_noteOn(d, 0, (OPN2_UInt8)k2, 100);
        OPNMIDIplay &p = *I.play(); int c = -1; for(size_t x = 0; x < p.m_chipChannels.size(); x++) for(auto j = p.m_chipChannels[x].users.begin(); !j.is_end(); ++j) if(j->value.loc.note == k2) c = (int)x;
        if(c < 0) { o.fail("C10/harness", "gliding note not found"); return; }
        I.generate_ms(100);
        static const char *AN[] = {"nothing", "CC65 off", "CC5 = 0", "CC121"};
        if(act == 1) opn2_rt_controllerChange(d, 0, 65, 0); else if(act == 2) opn2_rt_controllerChange(d, 0, 5, 0); else if(act == 3) opn2_rt_controllerChange(d, 0, 121, 0);
        I.generate_ms(4000);
        auto fr = [&]() { const pl::ChipShadow &cs = I.tap.chips[0]; int port = c / 3, cc = c % 3; return std::make_pair((unsigned)cs.regs[port][0xA4 + cc], (unsigned)cs.regs[port][0xA0 + cc]); };
        char b[240]; auto e1 = fr(); double f1 = freq_of(e1.first, e1.second, s.family), n1 = 440.0 * pow(2.0, (k2 - 69.0) / 12.0);
        if(fabs(f1 - n1) > step_of(e1.first, s.family) * 1.0001) { snprintf(b, sizeof b, "glide %d->%d, %s 100 ms into it: 4 s later the note is at %.3f Hz, its key's pitch is %.3f Hz", k1, k2, AN[act], f1, n1); o.fail("C10/glide/end-point", b); return; }
        opn2_rt_pitchBend(d, 0, 12288); auto e2 = fr(); double f2 = freq_of(e2.first, e2.second, s.family), n2 = 440.0 * pow(2.0, (k2 + 1.0 - 69.0) / 12.0);
        if(fabs(f2 - n2) > step_of(e2.first, s.family) * 1.0001) { snprintf(b, sizeof b, "glide %d->%d, %s 100 ms into it, 4 s later bend +1 semitone: %.3f Hz, expected %.3f Hz", k1, k2, AN[act], f2, n2); o.fail("C10/glide/bend-after-glide", b); return; }
        if(i % 53 == 0) o.sample = std::string("glide with ") + AN[act] + " during it"; o.units = 2; o.nontrivial = true; };
      fams.push_back(F); }
    return en::run_main(argc, argv, "C10", fams, TAGS, "non-trivial: every pitch of the sweep inside the native range was compared with the datasheet formula");
}
