// enumx (engine E2): exhaustive enumeration of finite, index-addressable input/configuration
// families against an oracle. Every family maps an index in [0,count) to exactly one case, so a
// family can be split over workers, and a single case replayed by "family:index".
#pragma once
#include "util.hpp"
#include "pfor.hpp"
#include <functional>
#include <sys/stat.h>

namespace en {

struct CaseOut {
    bool skip = false;        // index does not denote a new case (duplicate of another index)
    bool bad = false;
    bool nontrivial = false;  // by the family's stated rule
    std::string sig, detail, input_hex, sample;
    uint64_t tags = 0;
    uint64_t units = 1;       // elementary evaluations inside this case (points of a sweep, histories, targets)
    void fail(const std::string &s, const std::string &d) { if(!bad) { bad = true; sig = s; detail = d; } }
};

struct Family {
    std::string name;
    uint64_t count = 0;
    int chunk = 256;
    double budget_s = 2.0;
    std::string describe;     // what the family enumerates (goes into the evidence)
    std::function<void(uint64_t, CaseOut &)> run;
};

static std::map<std::string, std::string> g_extra;   // extra result fields a harness wants in its JSON (e.g. digests the check driver compares across legs)

struct Violation { std::string kind, sig, detail, family, input_hex; uint64_t index = 0, count = 1; int signo = 0; };

struct FamStats { std::string name, describe; uint64_t units = 0, count = 0, evaluated = 0, skipped = 0, nontrivial = 0, bad = 0, deaths = 0; bool complete = true; double wall_s = 0; };

struct Args {
    std::string tier = "quick", out, replay_case;
    int workers = 16; double deadline = 1e18; long seed = 0; double budget_scale = 1.0;
    std::map<std::string, std::string> extra;
};
static inline Args parse_args(int argc, char **argv) {
    Args a;
    for(int i = 1; i < argc; i++) {
        std::string k = argv[i];
        auto val = [&]() -> std::string { return i + 1 < argc ? std::string(argv[++i]) : std::string(); };
        if(k == "--tier") a.tier = val();
        else if(k == "--out") a.out = val();
        else if(k == "--workers") a.workers = atoi(val().c_str());
        else if(k == "--deadline") a.deadline = atof(val().c_str());
        else if(k == "--seed") a.seed = atol(val().c_str());
        else if(k == "--replay-case") a.replay_case = val();
        else if(k == "--budget-scale") a.budget_scale = atof(val().c_str());
        else if(k.rfind("--", 0) == 0) a.extra[k.substr(2)] = val();
    }
    return a;
}

enum { E_CHUNK = 1, E_VIOL = 2, E_SAMPLE = 3 };

static inline std::string make_tmpdir() {
    char tpl[] = "/tmp/opnverif-XXXXXX"; char *d = mkdtemp(tpl);
    if(!d) { perror("mkdtemp"); exit(2); }
    return d;
}

static inline int run_main(int argc, char **argv, const char *property, std::vector<Family> &fams, const std::vector<std::string> &tag_names,
                           const std::string &nontrivial_rule) {
    Args a = parse_args(argc, argv);
    std::string tmp = make_tmpdir();
    std::string cwd0; { char b[4096]; if(getcwd(b, sizeof b)) cwd0 = b; }
    if(chdir(tmp.c_str())) {}
    double t0 = vu::now_s();
    double deadline = a.deadline < 1e17 ? t0 + a.deadline : 1e18;
    int rc = 0;
    if(!a.replay_case.empty()) {
        size_t c = a.replay_case.rfind(':');
        std::string fn = a.replay_case.substr(0, c); uint64_t idx = strtoull(a.replay_case.c_str() + c + 1, NULL, 10);
        Family *F = nullptr; for(auto &f : fams) if(f.name == fn) F = &f;
        if(!F) { fprintf(stderr, "replay: unknown family %s\n", fn.c_str()); return 2; }
        std::string kind = "none", sig, detail;
        pf::Result r = pf::run(1, 1, tmp, "replay", [&](pf::Ctx &ctx, uint64_t, uint32_t sub) {
            if(sub > 0) return;
            ctx.begin_sub(0, F->budget_s);
            CaseOut o; F->run(idx, o);
            if(!o.bad && ctx.soft_errors) o.fail("sanitizer", ctx.soft_report);
            uint8_t b = o.bad ? 1 : 0; ctx.emit(&b, 1); ctx.emit_str(o.sig); ctx.emit_str(o.detail); ctx.emit_str(o.input_hex);
            ctx.end_sub();
        }, a.budget_scale);
        bool bad = false; std::string ih;
        for(auto &f : r.files) { pf::Reader rd; rd.load(f); uint8_t b; if(rd.get(&b, 1)) { rd.get_str(sig); rd.get_str(detail); rd.get_str(ih); if(b) { bad = true; kind = sig == "sanitizer" ? "sanitizer" : "monitor"; } } unlink(f.c_str()); }
        for(auto &d : r.deaths) { bad = true; kind = pf::death_kind_name(d.kind); detail = d.note; sig = kind + ":" + fn; if(d.kind == pf::DK_ASSERT) sig = "assert:" + d.note; }
        vu::J j = vu::J::obj(); j.set("violation", bad); j.set("kind", kind); j.set("sig", sig); j.set("detail", detail.substr(0, 12000)); j.set("input_hex", ih.substr(0, 4000));
        printf("REPLAY-RESULT %s\n", j.str().c_str());
        rc = bad ? 3 : 0;
    } else {
        std::vector<FamStats> stats; std::vector<Violation> viols; std::vector<uint64_t> tagc(tag_names.size(), 0);
        std::vector<std::string> samples; bool exhaustive = true;
        auto add_v = [&](const Violation &v) { for(auto &x : viols) if(x.sig == v.sig && x.kind == v.kind && x.family == v.family) { x.count++; return; } viols.push_back(v); };
        for(auto &F : fams) {
            if(a.extra.count("only-family") && a.extra.at("only-family") != F.name) continue;   // development aid; registered commands never pass it
            FamStats fs; fs.name = F.name; fs.describe = F.describe; fs.count = F.count;
            double f0 = vu::now_s();
            if(vu::now_s() > deadline) { fs.complete = false; exhaustive = false; stats.push_back(fs); continue; }
            uint64_t nchunks = (F.count + (uint64_t)F.chunk - 1) / (uint64_t)F.chunk;
            Family *Fp = &F; double dl = deadline;
            pf::Result r = pf::run(nchunks, a.workers, tmp, "fam", [&, Fp, dl](pf::Ctx &ctx, uint64_t item, uint32_t sub_start) {
                uint64_t ev = 0, sk = 0, nt = 0, bad = 0, aborted = 0, un = 0; std::vector<uint64_t> tc(tag_names.size(), 0);
                uint64_t base = item * (uint64_t)Fp->chunk;
                for(uint32_t s = sub_start; s < (uint32_t)Fp->chunk && base + s < Fp->count; s++) {
                    if((s & 63) == 0 && vu::now_s() > dl) { aborted = 1; break; }
                    ctx.begin_sub(s, Fp->budget_s);
                    CaseOut o; Fp->run(base + s, o);
                    if(!o.skip && !o.bad && ctx.soft_errors) o.fail("sanitizer", ctx.soft_report);
                    ctx.end_sub();
                    if(o.skip) { sk++; continue; }
                    ev++; un += o.units; if(o.nontrivial) nt++;
                    for(size_t t = 0; t < tc.size(); t++) if(o.tags & (1ull << t)) tc[t]++;
                    if(o.bad) { bad++; uint8_t t = E_VIOL; ctx.emit(&t, 1); uint64_t ix = base + s; ctx.emit(&ix, 8); ctx.emit_str(o.sig); ctx.emit_str(o.detail); ctx.emit_str(o.input_hex.substr(0, 4000)); }
                    if(!o.sample.empty() && (base + s) % (Fp->count / 3 + 1) == 0) { uint8_t t = E_SAMPLE; ctx.emit(&t, 1); ctx.emit_str(o.sample); }
                }
                uint8_t t = E_CHUNK; ctx.emit(&t, 1); ctx.emit(&ev, 8); ctx.emit(&sk, 8); ctx.emit(&nt, 8); ctx.emit(&bad, 8); ctx.emit(&aborted, 8); ctx.emit(&un, 8);
                for(auto x : tc) ctx.emit(&x, 8);
            }, a.budget_scale);
            for(auto &f : r.files) {
                pf::Reader rd; rd.load(f);
                while(!rd.eof()) {
                    uint8_t t; if(!rd.get(&t, 1)) break;
                    if(t == E_CHUNK) { uint64_t ev, sk, nt, bad, ab, un; rd.get(&ev, 8); rd.get(&sk, 8); rd.get(&nt, 8); rd.get(&bad, 8); rd.get(&ab, 8); rd.get(&un, 8); fs.units += un; fs.evaluated += ev; fs.skipped += sk; fs.nontrivial += nt; fs.bad += bad; if(ab) fs.complete = false;
                        for(size_t k = 0; k < tagc.size(); k++) { uint64_t x; rd.get(&x, 8); tagc[k] += x; } }
                    else if(t == E_VIOL) { Violation v; v.kind = "monitor"; v.family = F.name; rd.get(&v.index, 8); rd.get_str(v.sig); rd.get_str(v.detail); rd.get_str(v.input_hex); if(v.sig == "sanitizer") v.kind = "sanitizer"; add_v(v); }
                    else if(t == E_SAMPLE) { std::string s; rd.get_str(s); if(samples.size() < 12) samples.push_back(F.name + ": " + s); }
                }
                unlink(f.c_str());
            }
            for(auto &d : r.deaths) {
                Violation v; v.kind = pf::death_kind_name(d.kind); v.family = F.name; v.index = d.item * (uint64_t)F.chunk + d.sub; v.detail = d.note; v.signo = d.signo;
                v.sig = v.kind + ":" + F.name; if(d.kind == pf::DK_ASSERT) v.sig = "assert:" + d.note;
                add_v(v); fs.deaths++; fs.evaluated++; fs.bad++;
            }
            if(r.gave_up) { fs.complete = false; fprintf(stderr, "[enum] %s/%s: gave up after %zu worker deaths; family incomplete\n", property, F.name.c_str(), r.deaths.size()); }
            if(!fs.complete) exhaustive = false;
            fs.wall_s = vu::now_s() - f0;
            fprintf(stderr, "[enum] %s/%s: %llu cases (%llu evaluated, %llu skipped duplicates, %llu nontrivial), bad=%llu deaths=%llu complete=%d %.1fs\n", property, F.name.c_str(),
                    (unsigned long long)F.count, (unsigned long long)fs.evaluated, (unsigned long long)fs.skipped, (unsigned long long)fs.nontrivial, (unsigned long long)fs.bad, (unsigned long long)fs.deaths, (int)fs.complete, fs.wall_s);
            stats.push_back(fs);
        }
        vu::J j = vu::J::obj();
        j.set("property", property); j.set("engine", "enum"); j.set("tier", a.tier);
        uint64_t ev = 0, nt = 0, un = 0; for(auto &s : stats) { ev += s.evaluated; nt += s.nontrivial; un += s.units; }
        j.set("evaluations", (long long)ev); j.set("elementary_evaluations", (long long)un); j.set("distinct_nontrivial", (long long)nt); j.set("exhaustive", exhaustive);
        j.set("nontrivial_rule", nontrivial_rule);
        vu::J fj = vu::J::arr();
        for(auto &s : stats) { vu::J x = vu::J::obj(); x.set("family", s.name); x.set("enumerates", s.describe); x.set("size", (long long)s.count); x.set("evaluated", (long long)s.evaluated); x.set("elementary_evaluations", (long long)s.units); x.set("duplicate_indices_skipped", (long long)s.skipped);
            x.set("nontrivial", (long long)s.nontrivial); x.set("violating", (long long)s.bad); x.set("complete", s.complete); x.set("wall_s", s.wall_s); fj.push(x); }
        j.set("families", fj);
        vu::J tj = vu::J::obj(); for(size_t t = 0; t < tag_names.size(); t++) tj.set(tag_names[t], (long long)tagc[t]); j.set("outcome_tags", tj);
        vu::J sj = vu::J::arr(); for(auto &s : samples) sj.push(s); j.set("samples", sj);
        vu::J vj = vu::J::arr();
        for(auto &v : viols) { vu::J x = vu::J::obj(); x.set("kind", v.kind); x.set("sig", v.sig); x.set("detail", v.detail.substr(0, 6000)); x.set("family", v.family); x.set("index", (long long)v.index);
            vu::J ra = vu::J::arr(); ra.push("--replay-case"); ra.push(v.family + ":" + std::to_string(v.index)); x.set("replay_args", ra); x.set("input_hex", v.input_hex); x.set("count", (long long)v.count); x.set("signo", v.signo);
            vu::J ops = vu::J::arr(); ops.push(v.family + ":" + std::to_string(v.index)); x.set("ops", ops); vj.push(x); }
        j.set("violations", vj);
        { vu::J ex = vu::J::obj(); for(auto &kv : g_extra) ex.set(kv.first, kv.second); j.set("extra", ex); }
        j.set("wall_s", vu::now_s() - t0);
        std::string out = a.out; if(!out.empty() && out[0] != '/') out = cwd0 + "/" + out;
        if(!out.empty()) vu::write_file(out, j.str()); else printf("%s\n", j.str().c_str());
    }
    if(chdir("/")) {}
    std::string c = "rm -rf '" + tmp + "'"; if(system(c.c_str())) {}
    return rc;
}

// mixed-radix helper: decode idx into digits with the given radices (least significant first)
static inline void mixed_radix(uint64_t idx, const std::vector<uint64_t> &radix, std::vector<uint64_t> &digits) {
    digits.resize(radix.size());
    for(size_t i = 0; i < radix.size(); i++) { digits[i] = idx % radix[i]; idx /= radix[i]; }
}

} // namespace en
