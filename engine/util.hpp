// Small utilities shared by every harness: 128-bit hashing, JSON output, hex, timing.
#pragma once
#include <stdint.h>
#include <string.h>
#include <string>
#include <vector>
#include <map>
#include <set>
#include <sstream>
#include <time.h>
#include <sys/time.h>
#include <sys/resource.h>

namespace vu {

struct H128 {
    uint64_t a, b;
    bool operator==(const H128 &o) const { return a == o.a && b == o.b; }
    bool operator<(const H128 &o) const { return a != o.a ? a < o.a : b < o.b; }
};
struct H128Hash { size_t operator()(const H128 &h) const { return (size_t)(h.a ^ (h.b * 0x9E3779B97F4A7C15ull)); } };

static inline uint64_t rotl64(uint64_t x, int r) { return (x << r) | (x >> (64 - r)); }
static inline uint64_t fmix64(uint64_t k) {
    k ^= k >> 33; k *= 0xff51afd7ed558ccdULL; k ^= k >> 33; k *= 0xc4ceb9fe1a85ec53ULL; k ^= k >> 33; return k;
}
// MurmurHash3 x64 128
static inline H128 hash128(const void *key, size_t len, uint32_t seed = 0x5eed) {
    const uint8_t *data = (const uint8_t *)key;
    const size_t nblocks = len / 16;
    uint64_t h1 = seed, h2 = seed;
    const uint64_t c1 = 0x87c37b91114253d5ULL, c2 = 0x4cf5ad432745937fULL;
    for(size_t i = 0; i < nblocks; i++) {
        uint64_t k1, k2;
        memcpy(&k1, data + i * 16, 8); memcpy(&k2, data + i * 16 + 8, 8);
        k1 *= c1; k1 = rotl64(k1, 31); k1 *= c2; h1 ^= k1;
        h1 = rotl64(h1, 27); h1 += h2; h1 = h1 * 5 + 0x52dce729;
        k2 *= c2; k2 = rotl64(k2, 33); k2 *= c1; h2 ^= k2;
        h2 = rotl64(h2, 31); h2 += h1; h2 = h2 * 5 + 0x38495ab5;
    }
    const uint8_t *tail = data + nblocks * 16;
    uint64_t k1 = 0, k2 = 0;
    switch(len & 15) {
    case 15: k2 ^= ((uint64_t)tail[14]) << 48; /* fallthrough */
    case 14: k2 ^= ((uint64_t)tail[13]) << 40; /* fallthrough */
    case 13: k2 ^= ((uint64_t)tail[12]) << 32; /* fallthrough */
    case 12: k2 ^= ((uint64_t)tail[11]) << 24; /* fallthrough */
    case 11: k2 ^= ((uint64_t)tail[10]) << 16; /* fallthrough */
    case 10: k2 ^= ((uint64_t)tail[9]) << 8; /* fallthrough */
    case 9: k2 ^= ((uint64_t)tail[8]) << 0;
        k2 *= c2; k2 = rotl64(k2, 33); k2 *= c1; h2 ^= k2; /* fallthrough */
    case 8: k1 ^= ((uint64_t)tail[7]) << 56; /* fallthrough */
    case 7: k1 ^= ((uint64_t)tail[6]) << 48; /* fallthrough */
    case 6: k1 ^= ((uint64_t)tail[5]) << 40; /* fallthrough */
    case 5: k1 ^= ((uint64_t)tail[4]) << 32; /* fallthrough */
    case 4: k1 ^= ((uint64_t)tail[3]) << 24; /* fallthrough */
    case 3: k1 ^= ((uint64_t)tail[2]) << 16; /* fallthrough */
    case 2: k1 ^= ((uint64_t)tail[1]) << 8; /* fallthrough */
    case 1: k1 ^= ((uint64_t)tail[0]) << 0;
        k1 *= c1; k1 = rotl64(k1, 31); k1 *= c2; h1 ^= k1;
    }
    h1 ^= len; h2 ^= len; h1 += h2; h2 += h1;
    h1 = fmix64(h1); h2 = fmix64(h2); h1 += h2; h2 += h1;
    H128 r = {h1, h2};
    return r;
}
static inline H128 hash128(const std::string &s) { return hash128(s.data(), s.size()); }

static inline std::string hex(const void *p, size_t n) {
    static const char *d = "0123456789abcdef";
    std::string s; s.reserve(n * 2);
    const uint8_t *b = (const uint8_t *)p;
    for(size_t i = 0; i < n; i++) { s.push_back(d[b[i] >> 4]); s.push_back(d[b[i] & 15]); }
    return s;
}
static inline std::string hex(const std::string &s) { return hex(s.data(), s.size()); }
static inline std::string hex(const std::vector<uint8_t> &s) { return hex(s.data(), s.size()); }
static inline std::vector<uint8_t> unhex(const std::string &s) {
    std::vector<uint8_t> v;
    auto val = [](char c) -> int { return c >= '0' && c <= '9' ? c - '0' : c >= 'a' && c <= 'f' ? c - 'a' + 10 : c >= 'A' && c <= 'F' ? c - 'A' + 10 : -1; };
    for(size_t i = 0; i + 1 < s.size(); i += 2) {
        int a = val(s[i]), b = val(s[i + 1]);
        if(a < 0 || b < 0) break;
        v.push_back((uint8_t)(a * 16 + b));
    }
    return v;
}

static inline double now_s() {
    struct timespec ts; clock_gettime(CLOCK_MONOTONIC, &ts);
    return ts.tv_sec + ts.tv_nsec * 1e-9;
}
static inline double cpu_s() {
    struct timespec ts; clock_gettime(CLOCK_PROCESS_CPUTIME_ID, &ts);
    return ts.tv_sec + ts.tv_nsec * 1e-9;
}

static inline std::string jesc(const std::string &s) {
    std::string o; o.reserve(s.size() + 2);
    for(unsigned char c : s) {
        switch(c) {
        case '"': o += "\\\""; break;
        case '\\': o += "\\\\"; break;
        case '\n': o += "\\n"; break;
        case '\r': o += "\\r"; break;
        case '\t': o += "\\t"; break;
        default:
            if(c < 0x20 || c >= 0x7f) { char b[8]; snprintf(b, sizeof b, "\\u%04x", c); o += b; }
            else o.push_back((char)c);
        }
    }
    return o;
}

// Tiny JSON value builder (objects keep insertion order).
struct J {
    enum T { Null, Bool, Int, Dbl, Str, Arr, Obj } t = Null;
    bool b = false; long long i = 0; double d = 0; std::string s;
    std::vector<J> a; std::vector<std::pair<std::string, J>> o;
    J() {}
    J(bool v) : t(Bool), b(v) {}
    J(int v) : t(Int), i(v) {}
    J(unsigned v) : t(Int), i(v) {}
    J(long v) : t(Int), i(v) {}
    J(unsigned long v) : t(Int), i((long long)v) {}
    J(long long v) : t(Int), i(v) {}
    J(unsigned long long v) : t(Int), i((long long)v) {}
    J(double v) : t(Dbl), d(v) {}
    J(const char *v) : t(Str), s(v) {}
    J(const std::string &v) : t(Str), s(v) {}
    static J arr() { J j; j.t = Arr; return j; }
    static J obj() { J j; j.t = Obj; return j; }
    J &push(const J &v) { t = Arr; a.push_back(v); return *this; }
    J &set(const std::string &k, const J &v) {
        t = Obj;
        for(auto &kv : o) if(kv.first == k) { kv.second = v; return *this; }
        o.push_back(std::make_pair(k, v)); return *this;
    }
    J &operator[](const std::string &k) {
        t = Obj;
        for(auto &kv : o) if(kv.first == k) return kv.second;
        o.push_back(std::make_pair(k, J())); return o.back().second;
    }
    void dump(std::string &out) const {
        char buf[64];
        switch(t) {
        case Null: out += "null"; break;
        case Bool: out += b ? "true" : "false"; break;
        case Int: snprintf(buf, sizeof buf, "%lld", i); out += buf; break;
        case Dbl: snprintf(buf, sizeof buf, "%.9g", d); out += buf; break;
        case Str: out += '"'; out += jesc(s); out += '"'; break;
        case Arr: out += '['; for(size_t k = 0; k < a.size(); k++) { if(k) out += ','; a[k].dump(out); } out += ']'; break;
        case Obj: out += '{'; for(size_t k = 0; k < o.size(); k++) { if(k) out += ','; out += '"'; out += jesc(o[k].first); out += "\":"; o[k].second.dump(out); } out += '}'; break;
        }
    }
    std::string str() const { std::string s; dump(s); return s; }
};

static inline bool write_file(const std::string &path, const std::string &content) {
    FILE *f = fopen(path.c_str(), "wb");
    if(!f) return false;
    fwrite(content.data(), 1, content.size(), f);
    fclose(f);
    return true;
}
static inline bool read_file(const std::string &path, std::string &content) {
    FILE *f = fopen(path.c_str(), "rb");
    if(!f) return false;
    char buf[65536]; size_t n; content.clear();
    while((n = fread(buf, 1, sizeof buf, f)) > 0) content.append(buf, n);
    fclose(f);
    return true;
}

// Byte sink for canonical state keys
struct Ser {
    std::string s;
    void u8(uint8_t v) { s.push_back((char)v); }
    void u16(uint16_t v) { s.append((const char *)&v, 2); }
    void u32(uint32_t v) { s.append((const char *)&v, 4); }
    void u64(uint64_t v) { s.append((const char *)&v, 8); }
    void i64(int64_t v) { s.append((const char *)&v, 8); }
    void f64(double v) { s.append((const char *)&v, 8); }
    void raw(const void *p, size_t n) { s.append((const char *)p, n); }
    void str(const std::string &v) { u32((uint32_t)v.size()); s += v; }
};

} // namespace vu
