// pfor: fork-based parallel-for with crash isolation.
//
// Items 0..n-1 are statically striped over W worker processes. A worker announces (item, sub) in
// shared memory before executing a step under a CPU-time budget (ITIMER_PROF); if the worker dies
// (signal, sanitizer fatal error, library assertion, budget overrun) the supervisor attributes
// the death to the announced step, records it, and respawns the worker at the following step.
// Workers return results through a shared-memory buffer spilled to a per-worker file.
#pragma once
#include "util.hpp"
#include <functional>
#include <algorithm>
#include <atomic>
#include <signal.h>
#include <unistd.h>
#include <fcntl.h>
#include <errno.h>
#include <sys/mman.h>
#include <sys/wait.h>
#include <sys/time.h>
#include <execinfo.h>
#include <dlfcn.h>
#include <cxxabi.h>
#include <malloc.h>

#if defined(__SANITIZE_ADDRESS__)
#define PF_ASAN 1
extern "C" {
void __asan_set_error_report_callback(void (*)(const char *));
const char *__asan_default_options();
}
#else
#define PF_ASAN 0
#endif

namespace pf {

enum DeathKind { DK_NONE = 0, DK_ASSERT = 1, DK_TIMEOUT = 2, DK_SIGNAL = 3, DK_SANITIZER = 4, DK_EXIT = 5 };
static inline const char *death_kind_name(int k) {
    switch(k) { case DK_ASSERT: return "assert"; case DK_TIMEOUT: return "timeout"; case DK_SIGNAL: return "signal";
    case DK_SANITIZER: return "sanitizer"; case DK_EXIT: return "exit"; default: return "none"; }
}

enum { OUTCAP = 1 << 20, NOTECAP = 16384 };

struct Shared {
    volatile uint64_t item;
    volatile uint32_t sub;
    volatile int in_sub;
    volatile int kind;
    volatile int signo;
    volatile uint64_t steps;     // completed subs
    char note[NOTECAP];
    volatile uint64_t outlen;
    char out[OUTCAP];
};

struct Death {
    uint64_t item; uint32_t sub; int kind; int signo; int status; std::string note;
};

struct Ctx {
    Shared *sh = nullptr;
    int fd = -1;
    // soft (recoverable) sanitizer reports seen during the current sub
    int soft_errors = 0;
    std::string soft_report;
    double budget_scale = 1.0;

    void begin_sub(uint32_t sub, double cpu_budget_s) {
        soft_errors = 0; soft_report.clear();
        if(sh) { sh->sub = sub; sh->kind = DK_NONE; sh->note[0] = 0; sh->in_sub = 1; }
        arm(std::min(cpu_budget_s * budget_scale, cpu_budget_s * 2 + 30.0));   // replays run with scale 10 but at most twice the budget + 30 s: enough to tell a slow case from a hang, never hours
    }
    void end_sub() {
        arm(0);
        if(sh) { sh->in_sub = 0; sh->steps = sh->steps + 1; }
    }
    static void arm(double s) {
        struct itimerval it; memset(&it, 0, sizeof it);
        if(s > 0) { it.it_value.tv_sec = (time_t)s; it.it_value.tv_usec = (suseconds_t)((s - (time_t)s) * 1e6); if(!it.it_value.tv_sec && !it.it_value.tv_usec) it.it_value.tv_usec = 1000; }
        setitimer(ITIMER_PROF, &it, NULL);
    }
    void flush() {
        if(!sh || fd < 0 || sh->outlen == 0) return;
        size_t off = 0, n = sh->outlen;
        while(off < n) { ssize_t w = write(fd, sh->out + off, n - off); if(w <= 0) { if(errno == EINTR) continue; break; } off += (size_t)w; }
        sh->outlen = 0;
    }
    void emit(const void *p, size_t n) {
        if(!sh) return;
        if(n > OUTCAP) { flush(); size_t off = 0; while(off < n) { ssize_t w = write(fd, (const char *)p + off, n - off); if(w <= 0) break; off += (size_t)w; } return; }
        if(sh->outlen + n > OUTCAP) flush();
        memcpy(sh->out + sh->outlen, p, n);
        sh->outlen = sh->outlen + n;
    }
    void emit_str(const std::string &s) { uint32_t n = (uint32_t)s.size(); emit(&n, 4); emit(s.data(), n); }
};

static Ctx *g_ctx = nullptr;          // the current worker's context (NULL in the supervisor)
static int g_exit_on_soft = 0;

static inline void note_set(const char *s) {
    if(g_ctx && g_ctx->sh) { strncpy(g_ctx->sh->note, s, NOTECAP - 1); g_ctx->sh->note[NOTECAP - 1] = 0; }
}
static inline void note_append(const char *s) {
    if(g_ctx && g_ctx->sh) { size_t l = strlen(g_ctx->sh->note); strncpy(g_ctx->sh->note + l, s, NOTECAP - 1 - l); g_ctx->sh->note[NOTECAP - 1] = 0; }
}

static inline std::string demangle(const char *n) {
    int st = 0; char *d = abi::__cxa_demangle(n, NULL, NULL, &st);
    std::string r = (st == 0 && d) ? d : n; free(d); return r;
}

static void backtrace_to_note() {
    void *fr[48]; int n = backtrace(fr, 48);
    char line[512];
    for(int i = 0; i < n; i++) {
        Dl_info di; const char *nm = "?"; const char *obj = "?";
        if(dladdr(fr[i], &di)) { if(di.dli_sname) nm = di.dli_sname; if(di.dli_fname) obj = di.dli_fname; }
        snprintf(line, sizeof line, "#%d %p %s (%s)\n", i, fr[i], nm, obj);
        note_append(line);
        write(2, line, strlen(line));
    }
}

static volatile sig_atomic_t g_in_fatal = 0;
static void on_fatal_signal(int sig) {
    // re-entered (e.g. abort() from a corrupted heap while the backtrace is being taken): the first signal is already recorded, leave at once
    if(g_in_fatal) _exit(96);
    g_in_fatal = 1;
    Ctx::arm(0);
    if(g_ctx && g_ctx->sh) {
        if(g_ctx->sh->kind == DK_NONE) { g_ctx->sh->kind = DK_SIGNAL; g_ctx->sh->signo = sig; }
        char b[64]; snprintf(b, sizeof b, "signal %d (%s)\n", sig, strsignal(sig)); note_append(b);
        write(2, b, strlen(b));
        backtrace_to_note();
    }
    _exit(96);
}
static void on_prof(int) {
    if(g_ctx && g_ctx->sh) { g_ctx->sh->kind = DK_TIMEOUT; note_append("CPU budget exceeded\n"); backtrace_to_note(); }
    const char *m = "pfor: CPU budget exceeded\n"; write(2, m, strlen(m));
    _exit(98);
}

#if PF_ASAN
static void on_asan_report(const char *rep) {
    if(g_ctx) {
        g_ctx->soft_errors++;
        if(g_ctx->soft_report.empty()) g_ctx->soft_report.assign(rep, strnlen(rep, 12000));
        if(g_ctx->sh) { if(g_ctx->sh->kind == DK_NONE) g_ctx->sh->kind = DK_SANITIZER; note_append(rep); }
    }
}
#endif

static inline void install_handlers() {
    { void *warm[2]; backtrace(warm, 2); }   // loads the unwinder now, so that the handlers need no allocation later
    struct sigaction sa; memset(&sa, 0, sizeof sa);
    sa.sa_handler = on_fatal_signal; sigemptyset(&sa.sa_mask); sa.sa_flags = SA_NODEFER;
    static char altstack[1 << 16];
    stack_t ss; ss.ss_sp = altstack; ss.ss_size = sizeof altstack; ss.ss_flags = 0;
#if !PF_ASAN
    sigaltstack(&ss, NULL);
    sa.sa_flags |= SA_ONSTACK;
    sigaction(SIGSEGV, &sa, NULL); sigaction(SIGBUS, &sa, NULL); sigaction(SIGFPE, &sa, NULL);
#else
    (void)ss;
    __asan_set_error_report_callback(on_asan_report);
#endif
    sigaction(SIGABRT, &sa, NULL); sigaction(SIGILL, &sa, NULL);
    struct sigaction sp; memset(&sp, 0, sizeof sp); sp.sa_handler = on_prof; sigemptyset(&sp.sa_mask);
    sigaction(SIGPROF, &sp, NULL);
}

// fn(ctx, item, sub_start): run the steps of `item` starting at step `sub_start`, calling
// ctx.begin_sub/end_sub around each step and ctx.emit for results.
typedef std::function<void(Ctx &, uint64_t, uint32_t)> ItemFn;

struct Result {
    std::vector<Death> deaths;
    std::vector<std::string> files;   // per-worker output files (concatenate to read results)
    uint64_t steps = 0;
    bool gave_up = false;             // too many deaths: remaining steps were not executed
};

static inline Shared *alloc_shared() {
    void *p = mmap(NULL, sizeof(Shared), PROT_READ | PROT_WRITE, MAP_SHARED | MAP_ANONYMOUS, -1, 0);
    if(p == MAP_FAILED) { perror("mmap"); exit(2); }
    memset(p, 0, sizeof(Shared));
    return (Shared *)p;
}

// Runs items [0,n) on `workers` processes. `tmpdir` receives w<k>.bin result files.
// subs_of(item) is needed only to know where to continue after a death in the last step.
static inline Result run(uint64_t n, int workers, const std::string &tmpdir, const std::string &tag, const ItemFn &fn,
                         double budget_scale = 1.0, size_t max_deaths = 48) {
    Result res;
    if(workers < 1) workers = 1;
    if((uint64_t)workers > n && n > 0) workers = (int)n;
    struct W { pid_t pid; Shared *sh; int fd; uint64_t next_item; uint32_t next_sub; bool done; };
    std::vector<W> ws((size_t)workers);
    fflush(stdout); fflush(stderr);
    auto spawn = [&](int k) {
        W &w = ws[(size_t)k];
        fflush(stdout); fflush(stderr);
        pid_t pid = fork();
        if(pid < 0) { perror("fork"); exit(2); }
        if(pid == 0) {
            Ctx ctx; ctx.sh = w.sh; ctx.fd = w.fd; ctx.budget_scale = budget_scale;
            g_ctx = &ctx;
            install_handlers();
            uint32_t ss = w.next_sub;
            for(uint64_t it = w.next_item; it < n; it += (uint64_t)workers) {
                w.sh->item = it;
                fn(ctx, it, ss);
                ss = 0;
            }
            ctx.flush();
            _exit(0);
        }
        w.pid = pid;
    };
    for(int k = 0; k < workers; k++) {
        W &w = ws[(size_t)k];
        w.sh = alloc_shared();
        std::string path = tmpdir + "/" + tag + "-w" + std::to_string(k) + ".bin";
        w.fd = open(path.c_str(), O_CREAT | O_TRUNC | O_WRONLY | O_APPEND, 0600);
        if(w.fd < 0) { perror(path.c_str()); exit(2); }
        res.files.push_back(path);
        w.next_item = (uint64_t)k; w.next_sub = 0; w.done = false;
        if(w.next_item >= n) { w.done = true; w.pid = -1; continue; }
        spawn(k);
    }
    int live = 0; for(auto &w : ws) if(!w.done) live++;
    while(live > 0) {
        int status = 0;
        pid_t p = wait(&status);
        if(p < 0) { if(errno == EINTR) continue; break; }
        int k = -1;
        for(int i = 0; i < workers; i++) if(ws[(size_t)i].pid == p && !ws[(size_t)i].done) k = i;
        if(k < 0) continue;
        W &w = ws[(size_t)k];
        // spill what the worker left in the shared buffer
        if(w.sh->outlen) { size_t off = 0, nn = w.sh->outlen; while(off < nn) { ssize_t wr = write(w.fd, w.sh->out + off, nn - off); if(wr <= 0) break; off += (size_t)wr; } w.sh->outlen = 0; }
        if(WIFEXITED(status) && WEXITSTATUS(status) == 0) { w.done = true; live--; continue; }
        Death d; d.item = w.sh->item; d.sub = w.sh->sub; d.kind = w.sh->kind; d.signo = w.sh->signo; d.status = status;
        d.note.assign(w.sh->note, strnlen(w.sh->note, NOTECAP));
        if(d.kind == DK_NONE) {
            if(WIFSIGNALED(status)) { d.kind = DK_SIGNAL; d.signo = WTERMSIG(status); }
            else d.kind = (WEXITSTATUS(status) == 86) ? DK_SANITIZER : DK_EXIT;
        }
        res.deaths.push_back(d);
        if(res.deaths.size() >= max_deaths) {
            // a persistent defect kills step after step: stop here, report what was found, mark the run incomplete
            res.gave_up = true; w.done = true; live--;
            for(auto &o : ws) if(!o.done && o.pid > 0) { kill(o.pid, SIGKILL); }
            for(auto &o : ws) if(!o.done && o.pid > 0) { int st; waitpid(o.pid, &st, 0); o.done = true; live--; }
            break;
        }
        // continue after the step that died
        w.next_item = d.item; w.next_sub = d.sub + 1;
        w.sh->kind = DK_NONE; w.sh->note[0] = 0; w.sh->in_sub = 0;
        spawn(k);
    }
    for(auto &w : ws) { res.steps += w.sh->steps; close(w.fd); munmap(w.sh, sizeof(Shared)); }
    return res;
}

// Reader for the concatenated worker outputs
struct Reader {
    std::string buf; size_t pos = 0;
    bool load(const std::string &path) { pos = 0; return vu::read_file(path, buf); }
    bool eof() const { return pos >= buf.size(); }
    bool get(void *p, size_t n) { if(pos + n > buf.size()) return false; memcpy(p, buf.data() + pos, n); pos += n; return true; }
    bool get_str(std::string &s) { uint32_t n; if(!get(&n, 4)) return false; if(pos + n > buf.size()) return false; s.assign(buf.data() + pos, n); pos += n; return true; }
};

} // namespace pf

// Library assertion failures (fast variant builds the library with asserts on) become a
// recorded death with the assertion text, instead of an anonymous SIGABRT.
extern "C" void __assert_fail(const char *expr, const char *file, unsigned line, const char *func) {
    char b[1024];
    snprintf(b, sizeof b, "ASSERT %s:%u: %s: Assertion `%s' failed\n", file, line, func ? func : "?", expr);
    write(2, b, strlen(b));
    if(pf::g_ctx && pf::g_ctx->sh) {
        pf::Ctx::arm(0);
        pf::g_ctx->sh->kind = pf::DK_ASSERT;
        pf::note_set(b);
        _exit(97);
    }
    _exit(97);
}

#if PF_ASAN
extern "C" const char *__asan_default_options() {
    return "halt_on_error=0:detect_leaks=0:exitcode=86:malloc_fill_byte=190:max_malloc_fill_size=268435456:"
           "allocator_may_return_null=0:max_allocation_size_mb=1024:detect_stack_use_after_return=0:"
           "handle_abort=0:print_summary=1:symbolize=1:fast_unwind_on_malloc=1:malloc_context_size=8";
}
extern "C" const char *__ubsan_default_options() { return "print_stacktrace=1:halt_on_error=1"; }
#endif
