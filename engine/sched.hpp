// sched (engine E3): serialising scheduler for real threads + iterative context-bounding explorer.
// Exactly one thread runs at a time; control changes hands only at scheduling points (API call
// boundaries announced by the thread bodies and the OPN_VERIF_YIELD points inside the library).
// Every execution runs in a freshly forked process so that process-wide library state (the thing
// under test) never leaks from one schedule into the next.
#pragma once
#include "util.hpp"
#include <pthread.h>
#include <functional>
#include <unistd.h>
#include <sys/wait.h>

namespace sc {

struct Point { int running; int nenabled; int chosen; bool running_enabled; std::string tag; };

struct Scheduler {
    int n = 0; int current = 0; std::vector<bool> alive;
    std::vector<int> prefix; size_t step = 0; bool diverged = false;
    std::vector<Point> points;
    pthread_mutex_t mu = PTHREAD_MUTEX_INITIALIZER; pthread_cond_t cv = PTHREAD_COND_INITIALIZER;
    bool active = false;

    // canonical order: the running thread first if still enabled, then ascending ids
    void enabled_list(int me, bool me_enabled, std::vector<int> &out) { out.clear(); if(me_enabled) out.push_back(me); for(int i = 0; i < n; i++) if(alive[(size_t)i] && !(me_enabled && i == me)) out.push_back(i); }

    void decide(int me, bool me_enabled, const char *tag) {   // called with mu held
        std::vector<int> en; enabled_list(me, me_enabled, en);
        if(en.empty()) return;
        int choice = 0;
        if(step < prefix.size()) { choice = prefix[step]; if(choice >= (int)en.size()) { diverged = true; choice = 0; } }
        step++;
        Point p; p.running = me; p.nenabled = (int)en.size(); p.chosen = choice; p.running_enabled = me_enabled; p.tag = tag ? tag : ""; points.push_back(p);
        current = en[(size_t)choice];
        pthread_cond_broadcast(&cv);
    }
    void yield(int me, const char *tag) {
        if(!active) return;
        pthread_mutex_lock(&mu);
        decide(me, true, tag);
        while(current != me) pthread_cond_wait(&cv, &mu);
        pthread_mutex_unlock(&mu);
    }
    void start_wait(int me) { pthread_mutex_lock(&mu); while(current != me) pthread_cond_wait(&cv, &mu); pthread_mutex_unlock(&mu); }
    void finish(int me) { pthread_mutex_lock(&mu); alive[(size_t)me] = false; decide(me, false, "finish"); pthread_mutex_unlock(&mu); }
};

static Scheduler *g_sched = nullptr;
static __thread int tl_id = -1;
static inline void yield_hook(const char *tag) { if(g_sched && tl_id >= 0) g_sched->yield(tl_id, tag); }
static inline void api_boundary(const char *tag) { yield_hook(tag); }

typedef std::function<void(int)> Body;   // thread body, receives its id; calls sc::api_boundary between API calls

struct Exec { std::vector<Point> points; std::vector<std::string> obs; bool diverged = false; bool crashed = false; };

struct ThreadArg { Scheduler *s; int id; const Body *body; };
static void *thread_main(void *a) { ThreadArg *t = (ThreadArg *)a; tl_id = t->id; t->s->start_wait(t->id); (*t->body)(t->id); t->s->finish(t->id); return NULL; }

// Runs one schedule (prefix, then default choice 0) in a forked child; obs_fn collects the observations after the threads joined.
static inline Exec run_schedule(const std::vector<Body> &bodies, const std::vector<int> &prefix, const std::function<void(std::vector<std::string> &)> &obs_fn) {
    int fds[2]; if(pipe(fds)) { perror("pipe"); exit(2); }
    fflush(stdout); fflush(stderr);
    pid_t pid = fork();
    if(pid == 0) {
        close(fds[0]);
        Scheduler S; S.n = (int)bodies.size(); S.alive.assign(bodies.size(), true); S.prefix = prefix; S.current = 0; S.active = true; g_sched = &S;
        std::vector<pthread_t> th(bodies.size()); std::vector<ThreadArg> args(bodies.size());
        for(size_t i = 0; i < bodies.size(); i++) { args[i].s = &S; args[i].id = (int)i; args[i].body = &bodies[i]; pthread_create(&th[i], NULL, thread_main, &args[i]); }
        for(size_t i = 0; i < bodies.size(); i++) pthread_join(th[i], NULL);
        S.active = false; g_sched = nullptr;
        std::vector<std::string> obs; obs_fn(obs);
        vu::Ser out; out.u8(S.diverged); out.u32((uint32_t)S.points.size());
        for(auto &p : S.points) { out.u32((uint32_t)p.running); out.u32((uint32_t)p.nenabled); out.u32((uint32_t)p.chosen); out.u8(p.running_enabled); out.str(p.tag); }
        out.u32((uint32_t)obs.size()); for(auto &o : obs) out.str(o);
        size_t off = 0; while(off < out.s.size()) { ssize_t w = write(fds[1], out.s.data() + off, out.s.size() - off); if(w <= 0) break; off += (size_t)w; }
        close(fds[1]); _exit(0);
    }
    close(fds[1]);
    std::string buf; char tmp[65536]; ssize_t r; while((r = read(fds[0], tmp, sizeof tmp)) > 0) buf.append(tmp, (size_t)r);
    close(fds[0]); int st = 0; waitpid(pid, &st, 0);
    Exec e; if(!(WIFEXITED(st) && WEXITSTATUS(st) == 0) || buf.size() < 5) { e.crashed = true; return e; }
    size_t pos = 0; auto u8 = [&]() { return (uint8_t)buf[pos++]; }; auto u32 = [&]() { uint32_t v; memcpy(&v, buf.data() + pos, 4); pos += 4; return v; }; auto str = [&]() { uint32_t n = u32(); std::string s = buf.substr(pos, n); pos += n; return s; };
    e.diverged = u8(); uint32_t np = u32(); for(uint32_t i = 0; i < np; i++) { Point p; p.running = (int)u32(); p.nenabled = (int)u32(); p.chosen = (int)u32(); p.running_enabled = u8(); p.tag = str(); e.points.push_back(p); }
    uint32_t no = u32(); for(uint32_t i = 0; i < no; i++) e.obs.push_back(str());
    return e;
}

struct ExploreStats { uint64_t schedules = 0; int bound_completed = -1; std::set<std::string> outcomes; uint64_t max_points = 0; std::vector<int> failing; std::string fail_what; };

// Iterative context bounding: all schedules with at most `bound` preemptions (bounds 0..bound completed in order).
static inline void explore(const std::vector<Body> &bodies, const std::function<void(std::vector<std::string> &)> &obs_fn, int bound,
                           const std::function<bool(const Exec &, std::string &)> &check, ExploreStats &st, uint64_t max_schedules = 200000) {
    for(int b = 0; b <= bound; b++) {
        // DFS over prefixes with exactly-at-most b preemptions; schedules already covered by a smaller bound are re-run only as prefixes
        std::function<bool(const std::vector<int> &, int)> rec = [&](const std::vector<int> &prefix, int used) -> bool {
            Exec x = run_schedule(bodies, prefix, obs_fn);
            st.schedules++;
            if(x.crashed) { st.failing = prefix; st.fail_what = "execution crashed"; return false; }
            if(x.diverged) { st.failing = prefix; st.fail_what = "schedule prefix could not be replayed (divergence)"; return false; }
            if(x.points.size() > st.max_points) st.max_points = x.points.size();
            std::string o; for(auto &s : x.obs) o += s + "|"; st.outcomes.insert(o);
            std::string why; if(!check(x, why)) { st.failing.clear(); for(auto &p : x.points) st.failing.push_back(p.chosen); st.fail_what = why; return false; }
            if(st.schedules > max_schedules) return true;
            for(size_t i = prefix.size(); i < x.points.size(); i++) {
                const Point &p = x.points[i];
                for(int alt = 1; alt < p.nenabled; alt++) {
                    int cost = used + (p.running_enabled ? 1 : 0);
                    // preemptions spent inside x between prefix end and i are zero (default choice 0 keeps the running thread)
                    if(cost > b) continue;
                    if(cost < b && b > 0 && false) continue;
                    std::vector<int> np; for(size_t k = 0; k < i; k++) np.push_back(x.points[k].chosen); np.push_back(alt);
                    if(!rec(np, cost)) return false;
                }
            }
            return true;
        };
        if(!rec(std::vector<int>(), 0)) return;
        st.bound_completed = b;
    }
}

} // namespace sc
