// mcx (engine E1): explicit-state breadth-first exploration of the *real* API by history replay.
//
// A state is the operation history that reaches it (the objects under test cannot be copied); the
// visited set is keyed by a 128-bit hash of a canonical serialisation of the property-relevant
// concrete state. Every transition is executed on the implementation with the model's monitors
// active, so traces_validated_against_impl == transitions.
#pragma once
#include "util.hpp"
#include "pfor.hpp"
#include <unordered_map>
#include <unordered_set>
#include <algorithm>

namespace mcx {

struct Verdict {
    bool bad = false;
    std::string sig;     // stable signature: monitor/clause/op-kind/cause
    std::string detail;  // human readable
    void fail(const std::string &s, const std::string &d) { if(!bad) { bad = true; sig = s; detail = d; } }
};

struct Model {
    virtual ~Model() {}
    virtual size_t num_ops() const = 0;
    virtual std::string op_name(size_t op) const = 0;
    virtual size_t num_starts() const { return 1; }
    virtual std::string start_name(size_t) const { return "fresh"; }
    virtual void *fresh(size_t start) = 0;
    virtual void destroy(void *inst) = 0;
    // precondition evaluated on the pre-state; false prunes the transition (never a verdict)
    virtual bool enabled(void *, size_t) { return true; }
    // executes op with monitors; tags is a bitmask of model-defined outcome tags
    virtual void apply(void *inst, size_t op, Verdict &v, uint64_t &tags) = 0;
    virtual void key(void *inst, vu::Ser &out) = 0;
    virtual double budget_s(size_t) const { return 5.0; }
    virtual size_t num_tags() const { return 0; }
    virtual std::string tag_name(size_t) const { return ""; }
    // optional: ops allowed at a given depth (e.g. cheaper alphabets deeper); default all
    virtual bool op_in_depth(size_t /*op*/, int /*depth*/) const { return true; }
};

struct Violation {
    std::string kind;           // "monitor" | death kind name | "nondeterministic-replay"
    std::string sig, detail;
    size_t start = 0;
    std::vector<uint16_t> hist; // ops leading to the pre-state
    uint16_t op = 0;
    int signo = 0;
    uint64_t count = 1;
};

struct Stats {
    uint64_t states = 0, transitions = 0, pruned = 0, dup = 0, viol_transitions = 0;
    int completed_depth = 0;
    bool exhaustive = true;      // false if a deadline cut a level
    std::vector<uint64_t> states_per_level, trans_per_level;
    std::vector<uint64_t> tag_counts;
    std::vector<uint64_t> op_counts;
    std::vector<Violation> violations;   // grouped by sig
    std::vector<std::vector<std::string>> samples;
    double wall_s = 0;
};

struct StateRec { uint32_t parent; uint16_t op; uint16_t start; vu::H128 hash; };

enum { REC_OK = 1, REC_VIOL = 2, REC_NONDET = 3, REC_PRUNED = 4, REC_ABORT = 5 };

struct Explorer {
    Model &m;
    int workers = 16;
    std::string tmpdir = ".";
    double deadline_s = 1e18;    // absolute (vu::now_s based)
    double budget_scale = 1.0;
    uint64_t max_states = 40000000ull;
    bool verbose = true;
    std::vector<StateRec> states;
    std::unordered_set<vu::H128, vu::H128Hash> seen;

    explicit Explorer(Model &mm) : m(mm) {}

    void history_of(uint32_t id, std::vector<uint16_t> &h) const {
        h.clear();
        while(states[id].parent != 0xFFFFFFFFu) { h.push_back(states[id].op); id = states[id].parent; }
        std::reverse(h.begin(), h.end());
    }

    void add_violation(Stats &st, const Violation &v) {
        st.viol_transitions++;
        for(auto &x : st.violations) if(x.sig == v.sig && x.kind == v.kind) { x.count++; return; }
        st.violations.push_back(v);
    }

    Stats explore(int max_depth) {
        Stats st; double t0 = vu::now_s();
        st.tag_counts.assign(m.num_tags(), 0);
        st.op_counts.assign(m.num_ops(), 0);
        std::vector<uint32_t> frontier;
        // level 0: start states
        for(size_t s = 0; s < m.num_starts(); s++) {
            void *inst = m.fresh(s);
            vu::Ser k; k.u16((uint16_t)s); m.key(inst, k);
            m.destroy(inst);
            vu::H128 h = vu::hash128(k.s);
            if(seen.insert(h).second) {
                StateRec r; r.parent = 0xFFFFFFFFu; r.op = 0; r.start = (uint16_t)s; r.hash = h;
                states.push_back(r); frontier.push_back((uint32_t)states.size() - 1);
            }
        }
        st.states = states.size();
        st.states_per_level.push_back(states.size());
        for(int depth = 1; depth <= max_depth && !frontier.empty(); depth++) {
            if(vu::now_s() > deadline_s) { st.exhaustive = false; break; }
            const std::vector<uint32_t> &fr = frontier;
            std::string tag = "L" + std::to_string(depth);
            Model &mm = m; Explorer *self = this; double dl = deadline_s;
            pf::Result pr = pf::run(fr.size(), workers, tmpdir, tag, [&, self, dl, depth](pf::Ctx &ctx, uint64_t item, uint32_t sub_start) {
                if(vu::now_s() > dl) { uint8_t t = REC_ABORT; ctx.emit(&t, 1); return; }
                uint32_t sid = fr[item];
                std::vector<uint16_t> h; self->history_of(sid, h);
                size_t start = self->states[sid].start;
                for(uint32_t op = sub_start; op < (uint32_t)mm.num_ops(); op++) {
                    if(!mm.op_in_depth(op, depth)) continue;
                    ctx.begin_sub(op, mm.budget_s(op) + 0.5 * (double)h.size());
                    void *inst = mm.fresh(start);
                    Verdict v; uint64_t tags = 0;
                    for(size_t i = 0; i < h.size() && !v.bad; i++) { uint64_t t2 = 0; mm.apply(inst, h[i], v, t2); }
                    vu::Ser k0; k0.u16((uint16_t)start); mm.key(inst, k0);
                    vu::H128 h0 = vu::hash128(k0.s);
                    if(v.bad || !(h0 == self->states[sid].hash)) {
                        uint8_t t = REC_NONDET; ctx.emit(&t, 1); uint32_t it = (uint32_t)item; ctx.emit(&it, 4); ctx.emit(&op, 4);
                        ctx.emit_str(v.bad ? ("replay raised: " + v.sig) : std::string("state key differs on replay"));
                        mm.destroy(inst); ctx.end_sub(); continue;
                    }
                    if(!mm.enabled(inst, op)) {
                        uint8_t t = REC_PRUNED; ctx.emit(&t, 1); mm.destroy(inst); ctx.end_sub(); continue;
                    }
                    mm.apply(inst, op, v, tags);
                    if(!v.bad && ctx.soft_errors) v.fail("sanitizer", ctx.soft_report);
                    if(v.bad) {
                        uint8_t t = REC_VIOL; ctx.emit(&t, 1); uint32_t it = (uint32_t)item; ctx.emit(&it, 4); ctx.emit(&op, 4);
                        ctx.emit_str(v.sig); ctx.emit_str(v.detail);
                    } else {
                        vu::Ser k; k.u16((uint16_t)start); mm.key(inst, k);
                        vu::H128 hh = vu::hash128(k.s);
                        uint8_t t = REC_OK; ctx.emit(&t, 1); uint32_t it = (uint32_t)item; ctx.emit(&it, 4); ctx.emit(&op, 4);
                        ctx.emit(&hh, sizeof hh); ctx.emit(&tags, 8);
                    }
                    mm.destroy(inst);
                    ctx.end_sub();
                }
            }, budget_scale);
            // collect
            struct OkRec { uint32_t item, op; vu::H128 h; uint64_t tags; };
            std::vector<OkRec> oks;
            bool aborted = pr.gave_up;
            uint64_t level_trans = 0;
            for(auto &f : pr.files) {
                pf::Reader rd; rd.load(f);
                while(!rd.eof()) {
                    uint8_t t; if(!rd.get(&t, 1)) break;
                    if(t == REC_ABORT) { aborted = true; continue; }
                    if(t == REC_PRUNED) { st.pruned++; continue; }
                    uint32_t item, op; rd.get(&item, 4); rd.get(&op, 4);
                    if(t == REC_OK) { OkRec r; r.item = item; r.op = op; rd.get(&r.h, sizeof r.h); rd.get(&r.tags, 8); oks.push_back(r); level_trans++; st.op_counts[op]++; }
                    else if(t == REC_VIOL) {
                        Violation v; v.kind = "monitor"; rd.get_str(v.sig); rd.get_str(v.detail);
                        if(v.sig == "sanitizer") v.kind = "sanitizer";
                        v.start = states[fr[item]].start; history_of(fr[item], v.hist); v.op = (uint16_t)op;
                        add_violation(st, v); level_trans++; st.op_counts[op]++;
                    } else if(t == REC_NONDET) {
                        Violation v; v.kind = "nondeterministic-replay"; rd.get_str(v.detail); v.sig = "NONDETERMINISTIC-REPLAY";
                        v.start = states[fr[item]].start; history_of(fr[item], v.hist); v.op = (uint16_t)op;
                        add_violation(st, v);
                    }
                }
                unlink(f.c_str());
            }
            for(auto &d : pr.deaths) {
                Violation v; v.kind = pf::death_kind_name(d.kind); v.detail = d.note; v.signo = d.signo;
                v.start = states[fr[d.item]].start; history_of(fr[d.item], v.hist); v.op = (uint16_t)d.sub;
                std::string opn = m.op_name(d.sub); size_t par = opn.find('('); if(par != std::string::npos) opn = opn.substr(0, par);
                v.sig = v.kind + ":" + opn;
                if(d.kind == pf::DK_ASSERT) { v.sig = "assert:" + d.note; }
                add_violation(st, v); level_trans++; st.op_counts[d.sub]++;
            }
            std::sort(oks.begin(), oks.end(), [](const OkRec &a, const OkRec &b) { return a.item != b.item ? a.item < b.item : a.op < b.op; });
            std::vector<uint32_t> next;
            for(auto &r : oks) {
                for(size_t t = 0; t < st.tag_counts.size(); t++) if(r.tags & (1ull << t)) st.tag_counts[t]++;
                if(seen.insert(r.h).second) {
                    StateRec s; s.parent = fr[r.item]; s.op = (uint16_t)r.op; s.start = states[fr[r.item]].start; s.hash = r.h;
                    states.push_back(s); next.push_back((uint32_t)states.size() - 1);
                } else st.dup++;
            }
            st.transitions += level_trans;
            st.trans_per_level.push_back(level_trans);
            if(aborted) { st.exhaustive = false; st.states = states.size(); st.states_per_level.push_back(next.size());
                if(verbose) fprintf(stderr, "[mcx] depth %d ABORTED by deadline (partial: %llu transitions)\n", depth, (unsigned long long)level_trans);
                break; }
            st.completed_depth = depth;
            st.states = states.size();
            st.states_per_level.push_back(next.size());
            if(verbose) fprintf(stderr, "[mcx] depth %d: frontier %zu -> new states %zu, transitions %llu, total states %zu, violations(groups) %zu, %.1fs\n",
                                depth, fr.size(), next.size(), (unsigned long long)level_trans, states.size(), st.violations.size(), vu::now_s() - t0);
            frontier.swap(next);
            if(states.size() > max_states) { st.exhaustive = false; break; }
        }
        // sample traces: a few deepest states
        for(size_t i = 0; i < 3 && i < states.size(); i++) {
            uint32_t id = (uint32_t)(states.size() - 1 - i * (states.size() / 7 + 1) % states.size());
            std::vector<uint16_t> h; history_of(id, h);
            std::vector<std::string> s; s.push_back("start=" + m.start_name(states[id].start));
            for(auto o : h) s.push_back(m.op_name(o));
            st.samples.push_back(s);
        }
        st.wall_s = vu::now_s() - t0;
        return st;
    }
};

// Replays one history on a fresh instance with monitors; returns the verdict of the last op.
// (Deaths simply kill the process; the caller runs this in a child when it wants to survive.)
static inline Verdict replay(Model &m, size_t start, const std::vector<uint16_t> &ops, bool verbose) {
    void *inst = m.fresh(start);
    Verdict v;
    for(size_t i = 0; i < ops.size(); i++) {
        uint64_t tags = 0;
        if(verbose) fprintf(stderr, "[replay] %zu: %s\n", i, m.op_name(ops[i]).c_str());
        if(i + 1 == ops.size() && !m.enabled(inst, ops[i])) { if(verbose) fprintf(stderr, "[replay] last op is pruned by its precondition\n"); break; }
        m.apply(inst, ops[i], v, tags);
        if(v.bad) { if(verbose) fprintf(stderr, "[replay] VERDICT at step %zu: %s\n  %s\n", i, v.sig.c_str(), v.detail.c_str()); break; }
    }
    m.destroy(inst);
    return v;
}

} // namespace mcx
