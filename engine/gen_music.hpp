// Builders for music files (SMF, RMI, GMF, MUS, XMI, CMF, IMF, RSXX) used as seeds and grammars.
#pragma once
#include <stdint.h>
#include <string.h>
#include <string>
#include <vector>

namespace gm {

typedef std::vector<uint8_t> Bytes;

static inline void put_be(Bytes &b, uint64_t v, int n) { for(int i = n - 1; i >= 0; i--) b.push_back((uint8_t)(v >> (8 * i))); }
static inline void put_le(Bytes &b, uint64_t v, int n) { for(int i = 0; i < n; i++) b.push_back((uint8_t)(v >> (8 * i))); }
static inline void put_str(Bytes &b, const char *s) { b.insert(b.end(), s, s + strlen(s)); }
static inline void put_varlen(Bytes &v, uint32_t x) {
    uint8_t b[5]; int n = 0; b[n++] = x & 0x7F; while((x >>= 7)) b[n++] = 0x80 | (x & 0x7F);
    while(n--) v.push_back(b[n]);
}
static inline void append(Bytes &a, const Bytes &b) { a.insert(a.end(), b.begin(), b.end()); }

struct Track {
    Bytes d;
    Track &ev(uint32_t delta, std::initializer_list<uint8_t> bytes) { put_varlen(d, delta); d.insert(d.end(), bytes); return *this; }
    Track &raw(std::initializer_list<uint8_t> bytes) { d.insert(d.end(), bytes); return *this; }
    Track &meta(uint32_t delta, uint8_t type, const std::string &payload) { put_varlen(d, delta); d.push_back(0xFF); d.push_back(type); put_varlen(d, (uint32_t)payload.size()); d.insert(d.end(), payload.begin(), payload.end()); return *this; }
    Track &tempo(uint32_t delta, uint32_t us) { put_varlen(d, delta); d.push_back(0xFF); d.push_back(0x51); d.push_back(3); d.push_back((uint8_t)(us >> 16)); d.push_back((uint8_t)(us >> 8)); d.push_back((uint8_t)us); return *this; }
    Track &sysex(uint32_t delta, const Bytes &body) { put_varlen(d, delta); d.push_back(0xF0); put_varlen(d, (uint32_t)body.size()); append(d, body); return *this; }
    Track &eot(uint32_t delta) { put_varlen(d, delta); d.push_back(0xFF); d.push_back(0x2F); d.push_back(0); return *this; }
};

static inline Bytes smf(unsigned format, unsigned division, const std::vector<Bytes> &tracks, int ntrks_field = -1) {
    Bytes b; put_str(b, "MThd"); put_be(b, 6, 4); put_be(b, format, 2); put_be(b, ntrks_field < 0 ? tracks.size() : (unsigned)ntrks_field, 2); put_be(b, division, 2);
    for(auto &t : tracks) { put_str(b, "MTrk"); put_be(b, t.size(), 4); append(b, t); }
    return b;
}
static inline Bytes rmi(const Bytes &smfdata) {
    Bytes b; put_str(b, "RIFF"); put_le(b, smfdata.size() + 12, 4); put_str(b, "RMID"); put_str(b, "data"); put_le(b, smfdata.size(), 4); append(b, smfdata);
    if(b.size() & 1) b.push_back(0);
    return b;
}
static inline Bytes gmf(const Bytes &trackdata) {
    Bytes b; put_str(b, "GMF\x01"); b.push_back(0); b.push_back(0xC0); b.push_back(0x00); append(b, trackdata);
    return b;
}
// DMX MUS: 14-byte header + instrument list, score at scoreStart
static inline Bytes mus(const Bytes &score, unsigned channels = 1, unsigned ninstr = 1, int scoreLenField = -1, int scoreStartField = -1) {
    Bytes b; put_str(b, "MUS\x1A");
    unsigned start = 14 + 2 + ninstr * 2;
    put_le(b, scoreLenField < 0 ? score.size() : (unsigned)scoreLenField, 2); put_le(b, scoreStartField < 0 ? start : (unsigned)scoreStartField, 2);
    put_le(b, channels, 2); put_le(b, 0, 2); put_le(b, ninstr, 2); put_le(b, 0, 2);
    for(unsigned i = 0; i < ninstr; i++) put_le(b, i, 2);
    append(b, score);
    return b;
}
// AIL XMI: FORM XDIR { INFO n } CAT XMID { FORM XMID { [TIMB] [RBRN] EVNT } ... }
struct XmiSong { Bytes evnt; Bytes timb; Bytes rbrn; };
static inline void chunk(Bytes &out, const char *id, const Bytes &body) { put_str(out, id); put_be(out, body.size(), 4); append(out, body); if(body.size() & 1) out.push_back(0); }
static inline Bytes xmi(const std::vector<XmiSong> &songs, int info_tracks = -1) {
    Bytes info; put_le(info, info_tracks < 0 ? songs.size() : (unsigned)info_tracks, 2);
    Bytes xdir; put_str(xdir, "XDIR"); chunk(xdir, "INFO", info);
    Bytes out; put_str(out, "FORM"); put_be(out, xdir.size(), 4); append(out, xdir);
    Bytes cat; put_str(cat, "XMID");
    for(auto &s : songs) {
        Bytes form; put_str(form, "XMID");
        if(!s.timb.empty()) chunk(form, "TIMB", s.timb);
        if(!s.rbrn.empty()) chunk(form, "RBRN", s.rbrn);
        chunk(form, "EVNT", s.evnt);
        put_str(cat, "FORM"); put_be(cat, form.size(), 4); append(cat, form);
    }
    put_str(out, "CAT "); put_be(out, cat.size(), 4); append(out, cat);
    return out;
}
static inline Bytes cmf(const Bytes &music, unsigned ins_count = 1, unsigned ticks = 96) {
    Bytes b; put_str(b, "CTMF"); put_le(b, 0x0101, 2);
    unsigned ins_start = 40, mus_start = ins_start + 16 * ins_count;
    put_le(b, ins_start, 2); put_le(b, mus_start, 2); put_le(b, 48, 2); put_le(b, ticks, 2);
    put_le(b, 0, 2); put_le(b, 0, 2); put_le(b, 0, 2);       // title / author / remarks offsets
    for(int i = 0; i < 16; i++) b.push_back(i < 2 ? 1 : 0);   // channels in use
    put_le(b, ins_count, 2); put_le(b, 120, 2);
    while(b.size() < ins_start) b.push_back(0);
    for(unsigned i = 0; i < ins_count * 16; i++) b.push_back((uint8_t)(i * 3));
    append(b, music);
    return b;
}
static inline Bytes imf(unsigned ncmds) {
    Bytes b; put_le(b, ncmds * 4, 2);
    for(unsigned i = 0; i < ncmds; i++) { b.push_back((uint8_t)(0xA0 + (i % 9))); b.push_back((uint8_t)(0xF0 - i)); put_le(b, (i % 3) ? 1 : 0, 2); }
    put_le(b, 0, 2);
    return b;
}
static inline Bytes rsxx(const Bytes &music) {
    // head byte = offset of the music data; "rsxx}u" sits 0x10 bytes before it
    Bytes b; unsigned start = 0x5D; b.push_back((uint8_t)start);   // not a multiple of 4: the IMF detector (asked first) takes a little-endian word divisible by 4 as its length field
    while(b.size() < start - 0x10) b.push_back(0);   // zero filler: anything else lets the IMF detector (which runs first) claim the file
    put_str(b, "rsxx}u"); while(b.size() < start) b.push_back(0);
    append(b, music);
    return b;
}

// ---- seeds -----------------------------------------------------------------------------------
static inline Bytes seed_smf0() {
    Track t;
    t.meta(0, 0x03, "title").meta(0, 0x02, "(c)").tempo(0, 500000).ev(0, {0xC0, 5}).ev(0, {0xB0, 7, 100}).ev(0, {0x90, 60, 100}).ev(48, {0xA0, 60, 40}).ev(0, {0xD0, 30})
     .ev(24, {0xE0, 0, 0x50}).ev(24, {0x80, 60, 0}).raw({0, 62, 90}).ev(10, {0x90, 62, 0}).meta(0, 0x06, "mark").sysex(0, {0x7E, 0x7F, 0x09, 0x01, 0xF7}).ev(5, {0xF3, 1}).ev(0, {0xF2, 1, 2}).eot(96);
    return smf(0, 96, {t.d});
}
static inline Bytes seed_smf1() {
    Track t0, t1, t2;
    t0.meta(0, 0x03, "song").tempo(0, 400000).meta(0, 0x06, "loopStart").tempo(96, 600000).meta(96, 0x06, "loopEnd").eot(10);
    t1.meta(0, 0x03, "tr1").meta(0, 0x09, "dev1").ev(0, {0x91, 64, 90}).ev(200, {0x81, 64, 0}).ev(0, {0xB1, 110, 0}).ev(4, {0xB1, 111, 0}).eot(0);
    t2.meta(0, 0x06, "loopstart=2").ev(0, {0x99, 36, 127}).ev(2, {0x89, 36, 0}).meta(20, 0x06, "loopend=").meta(0, 0xE4, "x").ev(3, {0xC9, 1}).eot(1);
    return smf(1, 480, {t0.d, t1.d, t2.d});
}
static inline Bytes seed_mus() {
    Bytes s = {0x40, 0x00, 0x05,              // controller 0 (program) = 5 on ch 0
               0x40, 0x03, 0x64,              // volume
               0x90, 0xBC, 0x70, 0x10,        // key on ch0 note 60 vol 0x70, last -> delay 0x10
               0x1F, 0x23,                    // key on ch15 (percussion) note 35
               0x20, 0x80,                    // pitch wheel
               0x30, 0x0B,                    // system event 11 (all notes off)
               0x80, 0x3C, 0x81, 0x00,        // key off + two-byte delay 128
               0x0F, 0x23, 0x60};             // key off ch15, score end
    return mus(s, 1, 2);
}
static inline Bytes seed_xmi() {
    XmiSong a, b;
    a.evnt = {0xFF, 0x51, 0x03, 0x07, 0xA1, 0x20, 0xC0, 0x05, 0xB0, 0x07, 0x64, 0x90, 0x3C, 0x64, 0x20, 0x10, 0xB0, 116, 2, 0x90, 0x40, 0x50, 0x81, 0x00, 0x7F, 0x7F, 0xB0, 117, 127, 0xB0, 119, 1, 0xFF, 0x2F, 0x00};
    a.timb = {0x01, 0x00, 0x05, 0x00}; a.rbrn = {0x01, 0x00, 0x03, 0x00, 0x0B, 0x00, 0x00, 0x00};
    b.evnt = {0x99, 0x24, 0x7F, 0x05, 0x0A, 0xE0, 0x00, 0x40, 0xFF, 0x2F, 0x00};
    return xmi({a, b});
}
static inline Bytes seed_cmf() { Track t; t.ev(0, {0xC0, 0}).ev(0, {0x90, 60, 100}).ev(0, {0xB0, 0x66, 1}).ev(10, {0xB0, 0x68, 20}).ev(10, {0x80, 60, 0}).eot(0); return cmf(t.d); }
static inline Bytes seed_rsxx() { Bytes m = {0xC0, 0x05, 0x00, 0x90, 0x3C, 0x64, 0x10, 0x90, 0x3C, 0x50, 0x10, 0x80, 0x3C, 0x00, 0x00, 0xFF, 0x2F, 0x00}; return rsxx(m); }

} // namespace gm
