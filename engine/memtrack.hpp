// Allocation accounting: number of allocations and current/peak heap bytes, in both the
// sanitizer builds (allocator hooks) and the plain builds (glibc malloc-family interposition).
// Include in exactly one TU of a harness.
#pragma once
#include <stdint.h>
#include <stddef.h>
#include <stdlib.h>
#include <malloc.h>

namespace mt {
static volatile uint64_t n_allocs = 0, cur_bytes = 0, peak_bytes = 0, biggest = 0;
static uint64_t trap_at = 0;   // development aid: MT_TRAP=<bytes> aborts on the first allocation at least that big (for a debugger backtrace)
static inline void reset() { if(const char *t = getenv("MT_TRAP")) trap_at = strtoull(t, 0, 10); n_allocs = 0; peak_bytes = cur_bytes; biggest = 0; }
static inline void on_alloc(size_t sz) { if(trap_at && sz >= trap_at) abort(); n_allocs++; cur_bytes += sz; if(cur_bytes > peak_bytes) peak_bytes = cur_bytes; if(sz > biggest) biggest = sz; }
static inline void on_free(size_t sz) { cur_bytes = cur_bytes >= sz ? cur_bytes - sz : 0; }
}

#if defined(__SANITIZE_ADDRESS__) || defined(__SANITIZE_THREAD__)
extern "C" {
size_t __sanitizer_get_allocated_size(const volatile void *p);
void __sanitizer_malloc_hook(const volatile void *ptr, size_t size) { if(ptr) mt::on_alloc(size); }
void __sanitizer_free_hook(const volatile void *ptr) { if(ptr) mt::on_free(__sanitizer_get_allocated_size(ptr)); }
}
#else
extern "C" {
void *__libc_malloc(size_t);
void __libc_free(void *);
void *__libc_calloc(size_t, size_t);
void *__libc_realloc(void *, size_t);
void *__libc_memalign(size_t, size_t);
void *malloc(size_t n) { void *p = __libc_malloc(n); if(p) mt::on_alloc(malloc_usable_size(p)); return p; }
void free(void *p) { if(p) mt::on_free(malloc_usable_size(p)); __libc_free(p); }
void *calloc(size_t a, size_t b) { void *p = __libc_calloc(a, b); if(p) mt::on_alloc(malloc_usable_size(p)); return p; }
void *realloc(void *q, size_t n) { size_t old = q ? malloc_usable_size(q) : 0; void *p = __libc_realloc(q, n); if(p) { mt::on_free(old); mt::on_alloc(malloc_usable_size(p)); } return p; }
void *memalign(size_t a, size_t n) { void *p = __libc_memalign(a, n); if(p) mt::on_alloc(malloc_usable_size(p)); return p; }
int posix_memalign(void **out, size_t a, size_t n) { void *p = __libc_memalign(a, n); if(!p) return 12; mt::on_alloc(malloc_usable_size(p)); *out = p; return 0; }
void *aligned_alloc(size_t a, size_t n) { void *p = __libc_memalign(a, n); if(p) mt::on_alloc(malloc_usable_size(p)); return p; }
}
#endif
