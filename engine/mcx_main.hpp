// Common command line / result plumbing for E1 (mcx) harnesses.
#pragma once
#include "mcx.hpp"
#include <sys/stat.h>

namespace mcx {

struct Args {
    std::string tier = "quick", out, replay_ops, tmp;
    int workers = 16, depth = -1, replay_start = -1;
    double deadline = 1e18; long seed = 0; bool have_replay = false;
    double budget_scale = 1.0;
    std::map<std::string, std::string> extra;
};

static inline Args parse_args(int argc, char **argv) {
    Args a;
    for(int i = 1; i < argc; i++) {
        std::string k = argv[i];
        auto val = [&]() -> std::string { return i + 1 < argc ? std::string(argv[++i]) : std::string(); };
        if(k == "--tier") a.tier = val();
        else if(k == "--out") a.out = val();
        else if(k == "--workers") a.workers = atoi(val().c_str());
        else if(k == "--depth") a.depth = atoi(val().c_str());
        else if(k == "--deadline") a.deadline = atof(val().c_str());
        else if(k == "--seed") a.seed = atol(val().c_str());
        else if(k == "--replay-start") { a.replay_start = atoi(val().c_str()); a.have_replay = true; }
        else if(k == "--replay-ops") { a.replay_ops = val(); a.have_replay = true; }
        else if(k == "--budget-scale") a.budget_scale = atof(val().c_str());
        else if(k.rfind("--", 0) == 0) a.extra[k.substr(2)] = val();
    }
    return a;
}

static inline std::string make_tmpdir() {
    char tpl[] = "/tmp/opnverif-XXXXXX";
    char *d = mkdtemp(tpl);
    if(!d) { perror("mkdtemp"); exit(2); }
    return d;
}
static inline void rm_rf(const std::string &d) { std::string c = "rm -rf '" + d + "'"; if(system(c.c_str())) {} }

static inline vu::J violation_json(Model &m, const Violation &v) {
    vu::J j = vu::J::obj();
    j.set("kind", v.kind); j.set("sig", v.sig); j.set("detail", v.detail.substr(0, 6000));
    j.set("start", (long long)v.start); j.set("start_name", m.start_name(v.start));
    vu::J ops = vu::J::arr();
    for(auto o : v.hist) ops.push(m.op_name(o));
    ops.push(m.op_name(v.op));
    j.set("ops", ops); j.set("count", (long long)v.count); j.set("signo", v.signo);
    return j;
}

// Replays "name;name;..." on start; exit code 3 on violation (incl. death), 0 otherwise.
static inline int do_replay(Model &m, const Args &a, const std::string &tmp) {
    std::map<std::string, uint16_t> byname;
    for(size_t i = 0; i < m.num_ops(); i++) byname[m.op_name(i)] = (uint16_t)i;
    std::vector<uint16_t> ops; std::string cur;
    std::string s = a.replay_ops + ";";
    for(char c : s) {
        if(c == ';') { if(!cur.empty()) { auto it = byname.find(cur); if(it == byname.end()) { fprintf(stderr, "replay: unknown op '%s'\n", cur.c_str()); return 2; } ops.push_back(it->second); } cur.clear(); }
        else cur.push_back(c);
    }
    size_t start = a.replay_start < 0 ? 0 : (size_t)a.replay_start;
    std::string sig, detail, kind = "none";
    pf::Result r = pf::run(1, 1, tmp, "replay", [&](pf::Ctx &ctx, uint64_t, uint32_t sub) {
        if(sub > 0) return;
        ctx.begin_sub(0, 600.0);
        Verdict v = replay(m, start, ops, true);
        if(!v.bad && ctx.soft_errors) v.fail("sanitizer", ctx.soft_report);
        uint8_t b = v.bad ? 1 : 0; ctx.emit(&b, 1); ctx.emit_str(v.sig); ctx.emit_str(v.detail);
        ctx.end_sub();
    }, 1.0);
    bool bad = false;
    for(auto &f : r.files) { pf::Reader rd; rd.load(f); uint8_t b; if(rd.get(&b, 1)) { rd.get_str(sig); rd.get_str(detail); if(b) { bad = true; kind = sig == "sanitizer" ? "sanitizer" : "monitor"; } } unlink(f.c_str()); }
    for(auto &d : r.deaths) { bad = true; kind = pf::death_kind_name(d.kind); detail = d.note; sig = kind; if(d.kind == pf::DK_ASSERT) sig = "assert:" + d.note; }
    vu::J j = vu::J::obj(); j.set("violation", bad); j.set("kind", kind); j.set("sig", sig); j.set("detail", detail.substr(0, 12000));
    printf("REPLAY-RESULT %s\n", j.str().c_str());
    return bad ? 3 : 0;
}

static inline int run_main(int argc, char **argv, Model &m, const char *property, int quick_depth, int thorough_depth) {
    Args a = parse_args(argc, argv);
    std::string tmp = make_tmpdir();
    std::string cwd0; { char b[4096]; if(getcwd(b, sizeof b)) cwd0 = b; }
    if(chdir(tmp.c_str())) {}
    int rc = 0;
    if(a.have_replay) { rc = do_replay(m, a, tmp); }
    else {
        Explorer ex(m);
        ex.workers = a.workers; ex.tmpdir = tmp; ex.budget_scale = a.budget_scale;
        if(a.deadline < 1e17) ex.deadline_s = vu::now_s() + a.deadline;
        int depth = a.depth > 0 ? a.depth : (a.tier == "thorough" ? thorough_depth : quick_depth);
        Stats st = ex.explore(depth);
        vu::J j = vu::J::obj();
        j.set("property", property); j.set("engine", "mcx"); j.set("tier", a.tier); j.set("requested_depth", depth);
        j.set("completed_depth", st.completed_depth); j.set("exhaustive", st.exhaustive);
        j.set("states", (long long)st.states); j.set("transitions", (long long)st.transitions);
        j.set("pruned_by_precondition", (long long)st.pruned); j.set("duplicate_states", (long long)st.dup);
        j.set("violating_transitions", (long long)st.viol_transitions);
        j.set("num_ops", (long long)m.num_ops()); j.set("num_starts", (long long)m.num_starts());
        vu::J spl = vu::J::arr(); for(auto x : st.states_per_level) spl.push((long long)x); j.set("new_states_per_level", spl);
        vu::J tpl = vu::J::arr(); for(auto x : st.trans_per_level) tpl.push((long long)x); j.set("transitions_per_level", tpl);
        vu::J tags = vu::J::obj(); for(size_t t = 0; t < st.tag_counts.size(); t++) tags.set(m.tag_name(t), (long long)st.tag_counts[t]); j.set("outcome_tags", tags);
        vu::J opc = vu::J::obj(); for(size_t t = 0; t < st.op_counts.size(); t++) opc.set(m.op_name(t), (long long)st.op_counts[t]); j.set("op_counts", opc);
        vu::J starts = vu::J::arr(); for(size_t s = 0; s < m.num_starts(); s++) starts.push(m.start_name(s)); j.set("starts", starts);
        vu::J sm = vu::J::arr(); for(auto &s : st.samples) { vu::J x = vu::J::arr(); for(auto &o : s) x.push(o); sm.push(x); } j.set("samples", sm);
        vu::J vs = vu::J::arr(); for(auto &v : st.violations) vs.push(violation_json(m, v)); j.set("violations", vs);
        j.set("wall_s", st.wall_s);
        std::string out = a.out;
        if(!out.empty() && out[0] != '/') out = cwd0 + "/" + out;
        if(!out.empty()) vu::write_file(out, j.str()); else printf("%s\n", j.str().c_str());
        fprintf(stderr, "[mcx] %s: states=%llu transitions=%llu depth=%d exhaustive=%d violation-groups=%zu wall=%.1fs\n", property,
                (unsigned long long)st.states, (unsigned long long)st.transitions, st.completed_depth, (int)st.exhaustive, st.violations.size(), st.wall_s);
    }
    if(chdir("/")) {}
    rm_rf(tmp);
    return rc;
}

} // namespace mcx
