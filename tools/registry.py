"""Registry of checks: per property the harness legs (sources, build variant, per-tier arguments),
the evidence level and the enumeration rule text."""

class Leg:
    def __init__(self, name, sources, variant, args_quick, args_thorough, cores=True, timeout_quick=1500, timeout_thorough=7000):
        self.name, self.sources, self.variant = name, sources, variant
        self.args = {"quick": args_quick, "thorough": args_thorough}
        self.cores = cores
        self.timeout = {"quick": timeout_quick, "thorough": timeout_thorough}

COMMON_ASSUME = [
    "the harness is compiled against the working-tree headers and reads private state through -fno-access-control (no layout change)",
    "exploration is bounded: only call sequences up to the completed depth from the listed start states over the stated alphabet are covered",
]

PROPS = {}
NOT_APPLICABLE = {}

PROPS["C16"] = dict(
    level="model_checking",
    title="bank API behaves as a map",
    engine="mcx",
    technique="explicit-state model checking of the real bank API (BFS by history replay, state-deduplicated) against a std::map reference model in lock step",
    level_text="Every sequence of up to D bank-API calls over a 6-key colliding universe is executed on the real library and compared after every call with a std::map "
               "reference (lookups of all keys, identifiers, instrument read-back, iteration, size/capacity, zero allocations in real-time creation); "
               "bounded model checking with complete coverage of the stated alphabet and depth, not a proof for longer histories or other keys.",
    level_note="trusted: the reference model (a std::map), the allocation counter (malloc-family interposition / sanitizer allocator hooks), gcc ASan for slot recycling; "
               "keys outside the 6-key universe and histories longer than the completed depth are not covered",
    legs=[
        Leg("map", ["models/c16_bankmap.cpp"], "fast", ["--depth", "6"], ["--depth", "9"], timeout_thorough=14000),
        Leg("map_asan", ["models/c16_bankmap.cpp"], "asan", ["--depth", "4"], ["--depth", "5"]),
        # second 6-key universe on the first, the last and a middle bucket of the table (three ids chained in bucket 255, where the iterator's scan runs off the table)
        Leg("map_edge", ["models/c16_bankmap.cpp"], "fast", ["--universe", "edge", "--depth", "5"], ["--universe", "edge", "--depth", "8"], timeout_thorough=14000),
        # no state matching: every history over a focused 13-operation alphabet (create / createRt / remove on one key per bucket and a second key of bucket 0, one reservation) is its own state,
        # so map-internal bookkeeping that the state key does not serialise (a cached first bucket, a cursor) cannot be merged with a state reached another way
        Leg("histories", ["models/c16_bankmap.cpp"], "fast", ["--histories", "1", "--depth", "4"], ["--histories", "1", "--depth", "5"], timeout_thorough=14000),
        Leg("histories_edge", ["models/c16_bankmap.cpp"], "fast", ["--histories", "1", "--universe", "edge", "--depth", "4"], ["--histories", "1", "--universe", "edge", "--depth", "5"], timeout_thorough=14000),
    ],
    rule="breadth-first exploration of every sequence of bank API calls (getBank plain/Create/CreateRt, removeBank, first/next iteration, "
         "reserveBanks, setInstrument, openBankData) over a 6-key universe colliding in 3 hash buckets (and a second one on the first, last and a middle bucket); a state is distinct when the concrete "
         "bucket chains, capacity, free-list length, slot contents or the std::map reference differ; every transition runs on the real API",
    assumptions=COMMON_ASSUME + ["null chips replace the emulator cores (the bank API never touches them)",
                                 "bank handles are looked up afresh before each use (the header promises no validity across mutations)"],
)

RT_SRC = ["models/rt_voice.cpp"]
RT_ASSUME = COMMON_ASSUME + [
    "null chips replace the emulator cores through the guarded chip-factory hook; the library layer only writes to them",
    "alphabet: MIDI channels {0 melodic, 9 percussion}, keys {60,62,64}, generated bank (melodic programs 0,1 + blank 2; drum keys 60,62 + blank 64)",
    "time advances only through opn2_generate (12/40 ms steps; 30 ms/5 s/120 s for C06) at 44100 Hz",
]

FOCUS_OPS = r"noteOn\(0,6[02],100|noteOn\(0,41|noteOff\(0,(60|62|41|40)\)|cc\(0,64,|cc\(0,66,|patch\(0,[01]\)|generate\(40"
VARIATION_OPS = r"noteOn\(0,6[02],100|noteOff\(0,60\)|cc\(0,0,[01]\)|removeBank|openBankData\(same|patch\(0,1\)|generate\(40"
FOCUS_OPS_C03 = r"noteOn\(0,6[02],100|noteOn\(0,41|noteOff\(0,(60|62|41|40)\)|cc\(0,64,|patch\(0,[01]\)|generate\((40|700)|setAutoArpeggio\(1"
PROPS["C04"] = dict(
    level="model_checking", engine="mcx", title="voice-allocation bookkeeping stays consistent",
    technique="explicit-state model checking of the real real-time/sequencer/config API (BFS by history replay) with six structural invariants on the private bookkeeping and the 0x28 register tap after every call; library asserts enabled",
    level_text="All call histories up to the completed depth over the stated alphabet (note on/off, pedals, CC120/121/123, panic, reset-state, program/bend/portamento, time, arpeggio and allocation modes; "
               "plus bank reload, chip count, emulator switch, chip type, reset, bank removal and sequencer ticks in the configuration leg) are executed on the library and invariants I1..I6 of the statement are "
               "evaluated on a snapshot of OPNMIDIplay's private state and the key-on register state after every call.",
    level_note="trusted: the snapshot reader (-fno-access-control), the register tap hook, the invariant code; longer histories, more keys/channels and real emulator cores are outside the bound",
    legs=[
        Leg("rt", RT_SRC, "fast", ["--prop", "C04", "--depth", "5"], ["--prop", "C04", "--depth", "7"], timeout_thorough=14000),
        Leg("cfg", RT_SRC, "fast", ["--prop", "C04", "--config", "1", "--seq", "1", "--starts", "fresh,song,busy5,nearfull chips=2", "--depth", "3"],
            ["--prop", "C04", "--config", "1", "--seq", "1", "--starts", "fresh,song,busy5,nearfull chips=2", "--depth", "4"]),
        Leg("asan", RT_SRC, "asan", ["--prop", "C04", "--config", "1", "--seq", "1", "--starts", "fresh,song,busy5", "--depth", "2"],
            ["--prop", "C04", "--config", "1", "--seq", "1", "--starts", "fresh,song,busy5", "--depth", "3"]),
        # variation bank (MSB 1) selected, played, removed, played again (and reloaded / deselected in between): a note's instrument must always be an entry of a bank that is loaded now
        Leg("variation", RT_SRC, "fast", ["--prop", "C04", "--config", "1", "--starts", "fresh,busy5", "--only-ops", VARIATION_OPS, "--depth", "6"],
            ["--prop", "C04", "--config", "1", "--starts", "fresh,busy5", "--only-ops", VARIATION_OPS, "--depth", "8"]),
        # a full chip (six key-down notes of one timbre) with and without auto-arpeggio: evictions and evacuations happen on the first note-on
        Leg("fullchip", RT_SRC, "fast", ["--prop", "C04", "--starts", "busy6same arp=1,busy6same", "--depth", "4"], ["--prop", "C04", "--starts", "busy6same arp=1,busy6same,busy6same arp=1 chips=2", "--depth", "5"]),
        # focused alphabet (14 operations: two keys + a third note of the chip's timbre, releases of held keys, both pedals, two timbres, time) from pedal-down full-chip states: deeper histories
        Leg("fullchip_deep", RT_SRC, "fast", ["--prop", "C04", "--starts", "busy6same arp=1 pedal seventh,busy6same arp=1 pedal,busy6same pedal seventh", "--only-ops", FOCUS_OPS, "--depth", "6"],
            ["--prop", "C04", "--starts", "busy6same arp=1 pedal seventh,busy6same arp=1 pedal,busy6same pedal seventh,busy6same arp=1 pedal seventh chips=2", "--only-ops", FOCUS_OPS, "--depth", "8"], timeout_thorough=14000),
    ],
    rule="BFS over all call sequences; a state is distinct when any serialised field of the MIDI channels (controllers, active-note lists in order), chip channels (user lists in order, ages), "
         "setup, instrument caches, bank contents or the key-on bitmap differs (128-bit hash of the canonical serialisation)",
    assumptions=RT_ASSUME,
)
PROPS["C05"] = dict(
    level="model_checking", engine="mcx", title="a note sounds exactly while key/pedal/sostenuto holds it",
    technique="explicit-state model checking of the real real-time API against a lock-step reference model of the MIDI key/pedal/sostenuto rules; observed keyed-on (channel,key) set from the 0x28 tap joined with the chip-channel user lists",
    level_text="Every history up to the completed depth (polyphony precondition enforced on the pre-state, arpeggio off) is executed on the library; after every call the set of (channel,key) pairs owning a keyed-on "
               "chip channel must equal the reference model's sounding set, with three-valued expectation only inside the 30 ms percussion window.",
    level_note="trusted: the reference model (models/rt_voice.cpp RefModel, rules quoted from the statement), tap and snapshot; don't-cares: 30 ms drum window, reset-state with keys down (pruned), pedal changes while a drum release is deferred (pruned)",
    legs=[
        Leg("rules", RT_SRC, "fast", ["--prop", "C05", "--depth", "5"], ["--prop", "C05", "--depth", "7"], timeout_thorough=14000),
        Leg("rules2chips", RT_SRC, "fast", ["--prop", "C05", "--chips", "2", "--depth", "4"], ["--prop", "C05", "--chips", "2", "--depth", "6"], timeout_thorough=14000),
        # percussion only: both drum keys, their releases, 12/40 ms of time, the pedal of the drum channel - the 30 ms minimal drum life time needs several hits staggered in time
        Leg("drums_deep", RT_SRC, "fast", ["--prop", "C05", "--only-ops", r"noteOn\(9,6[02],100|noteOff\(9,6[02]\)|generate\(|cc\(9,64,|cc\(9,123", "--depth", "8"],
            ["--prop", "C05", "--only-ops", r"noteOn\(9,6[02],100|noteOff\(9,6[02]\)|generate\(|cc\(9,64,|cc\(9,123|panic", "--depth", "10"], timeout_thorough=14000),
    ],
    rule="BFS over all histories of note-on/off, CC64/66/120/121/123, panic, reset-state, program change and 12/40 ms time steps on a melodic and a percussion channel; state = implementation snapshot + reference-model state",
    assumptions=RT_ASSUME,
)
PROPS["C06"] = dict(
    level="model_checking", engine="mcx", title="a new note never displaces a sounding note while a chip channel is idle",
    technique="explicit-state model checking of the real API with a pre/post snapshot relation around every note-on, from empty and constructed near-full start states, all four allocation modes, arpeggio on/off, chips 1..3, simulated time bounded to 10 minutes",
    level_text="Every history up to the completed depth from each start configuration is executed; around each note-on on a non-blank instrument the relation of the statement is checked on the chip-channel user lists "
               "(idle channel chosen, nobody displaced; when all are busy a single pedal-held user goes before a key-down one).",
    level_note="trusted: snapshot reader; 10-minute horizon enforced as a precondition (the scoring code makes the property false after about 66 simulated minutes of holding a note)",
    legs=[
        Leg("alloc", RT_SRC, "fast", ["--prop", "C06", "--depth", "3", "--starts", "fresh,alloc=0,alloc=1,alloc=2,arp=1,arp=1 alloc=1,nearfull chips=2,nearfull chips=3 arp=1,nearfull chips=8"],
            ["--prop", "C06", "--depth", "5", "--starts", "fresh,alloc=0,alloc=1,alloc=2,arp=1,arp=1 alloc=1,nearfull chips=2,nearfull chips=3 arp=1,nearfull chips=8"], timeout_thorough=14000),
        # full chips with a channel shared by a key-down note and a later pedal-held note, and a single pedal-held note elsewhere (the rating of a channel is the sum over its users)
        Leg("shared", RT_SRC, "fast", ["--prop", "C06", "--depth", "3", "--starts", "sharedheld chips=1,sharedheld chips=2 alloc=1,sharedheld chips=1 alloc=2,sharedheld chips=3 alloc=0"],
            ["--prop", "C06", "--depth", "4", "--starts", "sharedheld chips=1,sharedheld chips=2 alloc=1,sharedheld chips=1 alloc=2,sharedheld chips=3 alloc=0,sharedheld chips=2 arp=1"]),
        # same exploration with every release time of the bank x30 (3 s .. 9 s tails): idle channels are still releasing when the next note-on is scored
        Leg("longrelease", RT_SRC, "fast", ["--prop", "C06", "--koff-scale", "30", "--depth", "3", "--starts", "fresh,alloc=0,alloc=1,alloc=2,nearfull chips=2,nearfull chips=1 arp=1"],
            ["--prop", "C06", "--koff-scale", "30", "--depth", "4", "--starts", "fresh,alloc=0,alloc=1,alloc=2,arp=1,nearfull chips=2,nearfull chips=1 arp=1,nearfull chips=3"]),
    ],
    rule="BFS over note/pedal/controller/time histories (30 ms, 5 s, 120 s steps, total <= 600 s) x start configurations; distinct by full implementation snapshot + simulated time",
    assumptions=RT_ASSUME,
)

E2_ASSUME = [
    "families are finite and enumerated completely; inputs outside the listed families are not covered",
    "gcc 12 AddressSanitizer (+ -D_GLIBCXX_SANITIZE_VECTOR, -fsanitize=bounds-strict on the library layer) is the memory-safety oracle; CPU-time budgets (ITIMER_PROF) are the termination oracle",
]
PROPS["C15"] = dict(
    level="exploration", engine="enum", title="WOPN/OPNI serialisation round-trips and never writes past its buffer",
    technique="exhaustive enumeration of finite value/size/byte-string families against a field-by-field round-trip oracle with guard bytes (narrow seam: wopn_file.c called directly)",
    level_text="Every value of the listed families (each instrument field over its full range one at a time, all name lengths, bank numbers, counts, header values, blank/delay pairs, versions 1/2), every destination size 0..needed+2 for a 1+1 bank and every section/instrument boundary +-1 and multiple of 65536 for shapes up to 128 banks, "
               "and every single-byte header substitution / listed accepted shape is saved and loaded on the real code and compared with the expectation derived from the statement. Complete for those families, silent outside them.",
    level_note="domain decisions: midi_velocity_offset and the pseudo-8-op flag are not carried by the format and are kept 0; version 2 encodes 'blank' as 'both delays zero' (equality modulo that documented canonicalisation); "
               "names compare as C strings; 'too small' is measured against the bytes a successful save really writes (the size calculator reports 2 bytes more than version 1 needs)",
    legs=[Leg("roundtrip", ["models/c15_wopn.cpp"], "asan", [], [])],
    rule="mixed-radix index -> one case per family member; a case is non-trivial when a save succeeded and the loaded value was compared field by field, when guard bytes were checked for a destination size, or when the loader accepted the byte string",
    assumptions=E2_ASSUME,
)
PROPS["C02"] = dict(
    level="exploration", engine="enum", title="untrusted bank data is rejected or loaded safely; loaded banks are playable",
    technique="exhaustive enumeration of truncations, header/instrument byte substitutions, full 16-bit version and field ranges and short tails on exact-size heap blocks under ASan, followed by a note/bend/controller matrix under a CPU-time budget on every accepted bank and every instrument field value; renders on real emulator cores for every register-image byte value",
    level_text="All listed byte strings go through WOPN_LoadBankFromMem / WOPN_LoadInstFromMem / opn2_openBankData on a block of exactly the given size; all 36 instrument fields are swept over their full ranges through opn2_setInstrument and played "
               "(keys x bends x bend ranges x volume models x brightness x melodic/percussion). Oracle: defined return values, no sanitizer report, every case inside its CPU budget.",
    level_note="byte strings outside the families (e.g. several coordinated wrong fields) are not covered; allocation failure paths are not exercised; real-core renders use 3 cores in quick and 8 in thorough",
    legs=[Leg("bank", ["models/c02_bank.cpp"], "asan", [], [], timeout_quick=2400),
          # a loaded bank manipulated through the bank API (create / remove / reserve on ids that collide in the bank map) and then played: every call must come back; explicit-state search to closure
          Leg("bankops", ["models/c03_api.cpp"], "asan", ["--subset", "banks", "--as", "C02", "--depth", "7"], ["--subset", "banks", "--as", "C02", "--depth", "9"], timeout_thorough=14000)],
    rule="one case per (family, index); non-trivial when the loader accepted the string or the instrument was installed and the whole play matrix / render completed",
    assumptions=E2_ASSUME + ["null chips for the play matrix (the library layer computes registers; cores are exercised by the render family)"],
)

PROPS["C01"] = dict(
    level="exploration", engine="enum", title="untrusted music data never crashes, corrupts memory or hangs the player",
    technique="exhaustive enumeration of parser-distinguishing byte-alphabet strings, 1-deviation neighbourhoods of well-formed seeds of 9 formats, boundary values of every header field, extreme variable-length quantities, wrap-around length fields, loop-marker rows on two tracks, device-switch name counts, second loads over a playing song and scaling patterns through opn2_openData on exact-size heap blocks under ASan, with canonical and all depth-2 follow-up call sequences under CPU and heap budgets",
    level_text="Every member of the listed families is loaded through the public API (wide seam) on a block of exactly its size and - whether the loader accepted or rejected it - driven through play/tick/seek/rewind/song-select/metadata/loop/track-option calls. "
               "Oracle: AddressSanitizer with annotated vectors and strict bounds, fatal signals, uncaught exceptions, CPU-time budget per case, peak-heap budget linear in the input size, 0/-1 return with a non-empty error text.",
    level_note="strings outside the families (longer than the alphabet bound, more than one deviation from a seed in the quick tier, three coordinated fields) are not covered; the heap budget is 24 MiB + 16 KiB per input byte (a 5-byte device switch legitimately adds 16 MIDI channels); real emulator cores are replaced by null chips",
    legs=[Leg("loader", ["models/c01_music.cpp"], "asan", [], [], timeout_quick=2400, timeout_thorough=14000)],
    rule="one case per (family, index); duplicates produced by a mutation that leaves the seed unchanged are skipped; non-trivial when opn2_openData accepted the input and the follow-up calls ran on it",
    assumptions=E2_ASSUME + ["null chips (chip factory hook)", "follow-up alphabet: 19 calls (play 64/4096/long, tick, 5 seeks, rewind, 4 song selections, tell/length, metadata incl. out-of-range indices, loop on, track options, channel off, atEnd)"],
)

SEQ_SRC = ["models/seq_sem.cpp"]
SEQ_ASSUME = [
    "wide seam: files go through opn2_openData, events are observed with opn2_setRawEventHook, time with opn2_tickEvents / opn2_play, audio position with the null chip's frame counter",
    "grammar-generated files only (bounded number of events, the stated delta/event alphabets); every event is made identifiable through its data bytes",
    "times are compared with 2 microsecond + 1e-9 relative tolerance (tick granularity 1 microsecond)",
]
PROPS["C07"] = dict(
    level="model_checking", engine="enum", title="the sequencer delivers every file event once, in order, at the right time",
    technique="exhaustive enumeration of all SMF files of a bounded grammar; every file is played on the real library and the delivered event trace is compared with an independent SMF reference interpreter (reference model, every trace replayed on the implementation)",
    level_text="For every file of the grammar x tempo multipliers x track/channel masks x drivers (self-fed opn2_tickEvents, fixed-step ticks, opn2_play with 5 request sizes) the delivered stream must be exactly the reference stream: "
               "each event once, per-track order, the same-tick ordering rules (controllers before note-ons; among note events of one key the file order, except that the first note-off of a key sounding before the tick goes in front of every note-on), absolute times from the tempo map scaled by the multiplier, End-of-Track skipping, reported length, audio position window [t*rate-512, t*rate], key-ons at the chips for enabled tracks/channels only.",
    level_note="reference interpreter written from the SMF specification and the statement (models/seq_sem.cpp reference()); loop markers and CC110/111 are left to C09; tempo events only in track 0 (well-formed format 1); nothing is asserted about the order of different tracks at the same instant",
    legs=[Leg("smf", SEQ_SRC, "fast", ["--prop", "C07"], ["--prop", "C07"], timeout_thorough=14000)],
    rule="states = files of the grammar (one per index); transitions = events delivered and compared; a case is non-trivial when the file loaded and its complete trace matched the reference",
    assumptions=SEQ_ASSUME,
)
PROPS["C08"] = dict(
    level="model_checking", engine="enum", title="seeking equals playing up to the target, minus the sounding notes",
    technique="exhaustive enumeration of grammar files x all seek targets between event times x all ordered pairs of seeks; differential oracle on the real code (seek path vs linear playback to the same time)",
    level_text="For every file and every seek target (midway between consecutive event times, 0, inside the trailing second, beyond the end, negative) and every ordered pair of targets: reported position, no keyed-on chip channel, "
               "controller state of all 16 MIDI channels (program, bank, volume, expression, pan, bend and sensitivity, pedals, RPN state) and the complete stream delivered afterwards with its song times must equal those of an instance that played linearly to the same time.",
    level_note="differential: no hand-written expectation except the position rule (beyond the end -> 0, negative -> unchanged); at position 0 the controller comparison is skipped because nothing has been played yet on either side (the first row resets the controllers)",
    legs=[Leg("seek", SEQ_SRC, "fast", ["--prop", "C08"], ["--prop", "C08"], timeout_thorough=14000)],
    rule="one case per file; inside it every target and ordered pair of targets is executed; non-trivial when all comparisons were made",
    assumptions=SEQ_ASSUME,
)
PROPS["C09"] = dict(
    level="model_checking", engine="enum", title="loop points: the marked section repeats exactly as often as requested",
    technique="exhaustive enumeration of marker placements (0..2 markers x every tick x track, 3 markers in the thorough tier, valid and invalid) x loop on/off x counts x hook registration orders x resets/loads in between x start {after load, after rewind, after seek to 0, after a seek into the song before the loop end}; reference loop semantics from the statement replayed against the real sequencer",
    level_text="Every placement is played on the library; per track the delivered tick sequence must equal prefix + N x body + tail (first 5 passes for count -1), the end of song must be reported, the first event after every jump must see no keyed-on chip channel (All-Notes-Off), "
               "loop-end callbacks = arrivals at loop end + song end, loop-start callbacks = passes, also when hooks are registered before opn2_openData / opn2_reset / opn2_switchEmulator.",
    level_note="don't-cares: events sharing the tick of the loopEnd marker; count 0 is treated as one pass; the song ends at the tick of its last event (lone End-of-Track rule), so a loopStart there is an invalid (empty) loop",
    legs=[Leg("loops", SEQ_SRC, "fast", ["--prop", "C09"], ["--prop", "C09"])],
    rule="one case per (marker placement, loop switch, count, hook order, track count); non-trivial when the whole trace and the callback counts matched the reference",
    assumptions=SEQ_ASSUME,
)

PROPS["C17"] = dict(
    level="model_checking", engine="enum", title="container/converter front-ends preserve the music (RMI, GMF, MUS, XMI)",
    technique="exhaustive enumeration of bounded grammars of MUS scores, XMI sequences and RMI/GMF wrappings; independent MUS and XMI reference interpreters and a differential oracle against the bare SMF, every trace replayed on the real loader and sequencer",
    level_text="Every grammar member is loaded through opn2_openData and played; the channel events reaching the synthesizer must be the event sequence the source format defines (MUS channel 15 -> percussion, controller table, remembered note volumes, pitch wheel scaling; XMI note durations -> note-offs, selected song) "
               "with inter-event times proportional to source ticks at 140 Hz +-2.5 % (MUS) / 120 Hz (XMI with its tempo); RMI must equal the bare SMF event for event and time for time, GMF up to the constant ratio 96/192.",
    level_note="events sharing a source tick are matched as a set (the sequencer's same-tick ordering is C07's subject); the converter's own CC7=100 is tolerated only where it can be attributed (first use of that MIDI channel, percussion channel at song start, score end) and is never required; every XMI song carries its own tempo; first note volume of a MUS channel is always given explicitly (the format's default is not defined by the statement)",
    legs=[Leg("conv", SEQ_SRC, "fast", ["--prop", "C17"], ["--prop", "C17"], timeout_thorough=14000)],
    rule="one case per grammar member; non-trivial when the file loaded and the complete delivered trace matched the reference interpreter",
    assumptions=SEQ_ASSUME,
)

PROPS["C19"] = dict(
    level="model_checking", engine="enum", title="only well-formed, correctly addressed SysEx messages take effect",
    technique="exhaustive enumeration of message mutations (all single-byte x256, two-byte over a 16-value alphabet, truncations/extensions, all checksums and device bytes, all alphabet strings up to a length bound) x prior synthesizer states x device ids against a reference validity predicate and effect model; full private-state + chip-register snapshot comparison around every call",
    level_text="For every enumerated byte string the call's verdict must agree with the reference predicate (F0..F7 framing, 7-bit data, device match or broadcast, exact length, Roland checksum); an accepted message must have the documented effect "
               "(mode switch with controller reset, master volume, GS drum-part flag), a rejected one must return 0 and leave the full snapshot and every chip register untouched.",
    level_note="don't-care (either verdict, effect checked when accepted): broadcast device byte 7F on Roland/Yamaha messages and non-canonical data values of the mode-switch messages; strings longer than the alphabet bound are covered only as mutations of the 7 recognised messages",
    legs=[Leg("sysex", ["models/c19_sysex.cpp"], "fast", [], []), Leg("sysex_asan", ["models/c19_sysex.cpp"], "asan", [], [])],
    rule="one case per (family, index); reference predicate verdict + snapshot equality; non-trivial when the verdict was checked",
    assumptions=E2_ASSUME[:1] + ["null chips; a prepared instance is reused across rejected messages (identical snapshot is asserted) and rebuilt after every accepted one"],
)
PROPS["C12"] = dict(
    level="model_checking", engine="enum", title="bank select + program change pick the documented instrument, with fallbacks",
    technique="exhaustive enumeration of bank layouts (all subsets of a 7-bank universe x blank patterns) x all short bank-select/program/mode histories x keys, lock-step reference resolver, uploaded instrument identified by signature bytes in the register tap",
    level_text="On every layout every history (mode GM/GS/XG, GS drum part, channel 1/4/10, MSB {0,1,126,127}, LSB {0,1}, program {0,5}, key {35,60}, three bank-select API paths, both orders of bank/program) is played; the instrument written to the chip (or the rejection) and the pitch registers must be those of the documented resolution: exact entry, LSB cleared, bank 0, silent; percussion by program/key/drum key; LSB ignored in GS; replaced instruments played.",
    level_note="reference resolver in models/c12_banksel.cpp (resolve()); per-mode alphabets so that the model only speaks where the statement does (MSB 126/127 only in XG); the SFX kit bank (key 133) is inserted directly into the map because the bank API cannot address LSB > 127",
    legs=[Leg("resolve", ["models/c12_banksel.cpp"], "fast", [], [])],
    rule="one case per layout (all histories run on it); non-trivial when every history matched the resolver",
    assumptions=E2_ASSUME[:1] + ["null chips; instrument identity = 5-bit signature in register 0x60 of operator 1"],
)

PROPS["C10"] = dict(
    level="exploration", engine="enum", title="programmed pitch = key + bend*range + instrument offset (in tune)",
    technique="exhaustive sweep of a finite grid (chip family x bend range x note offset x key x bend value, ascending) through the public real-time API; block/F-number/multiplier registers from the tap compared with the datasheet frequency formula",
    level_text="Every point of the stated grid is played on the library and the frequency denoted by the A4/A0 registers must lie within one F-number step of 440*2^((p-69)/12) for every p below 6.6 kHz, be non-decreasing along each ascending bend sweep, "
               "use the drum key on percussion channels, start/end portamento at the right pitches, and one bend message must re-pitch exactly the key-down notes of its channel in that call.",
    level_note="quick tier: every 16th bend value plus the boundaries (a complete but coarser grid); thorough: all 16384; vibrato is zero throughout; pitches above the native range (multiplier extension) are only counted, not judged",
    legs=[Leg("pitch", ["models/c10_pitch.cpp"], "fast", [], [], timeout_thorough=7000)],
    rule="one case per (family, range, offset, key, channel kind) containing the whole ascending bend sweep; elementary_evaluations counts the individual pitches; non-trivial when the sweep completed with every in-range pitch compared",
    assumptions=E2_ASSUME[:1] + ["null chips; registers read from the tap's shadow of chip 0; OPN2 master clock 7670454 Hz, OPNA 7987200 Hz, f = fnum * 2^(block-1) * clock / (144 * 2^20)"],
)
PROPS["C11"] = dict(
    level="exploration", engine="enum", title="loudness controls are monotone and stay within the chip's level range",
    technique="exhaustive sweep velocity x channel volume x expression (127 x 128 x 128) x master volume {0,1,64,127} x 5 volume models x 3 algorithms (13 master volumes x 8 algorithms in the thorough tier), every ordered pair of values of master volume / CC7 / CC11 sent to a sounding note, and brightness 0..127 x flag x 8 algorithms x modulator scaling x operator level 0..127 x 16 volumes x 5 models, through the real note-update path with a tap on registers 0x40..0x4F",
    level_text="For every grid point the total-level values written lie in 0..127 (raw, untruncated values from the tap), carrier attenuation never rises along any of the four loudness axes, zero volume/expression/master silences the carriers, modulators keep the patch value unless scaling or reduced brightness applies, and lowering brightness never lowers an attenuation.",
    level_note="velocity and master monotonicity are checked between neighbouring cases by running the neighbour in a second/third instance point by point; controller values above 127 belong to C03",
    legs=[Leg("levels", ["models/c11_volume.cpp"], "fast", [], [])],
    rule="one case per (model, master, algorithm, velocity) holding a 128x128 volume/expression sub-grid, or per brightness configuration; elementary_evaluations counts grid points",
    assumptions=E2_ASSUME[:1] + ["null chips; carrier mask per algorithm from the YM2612 manual (register slot order 0x40,0x44,0x48,0x4C)"],
)

PROPS["C13"] = dict(
    level="exploration", engine="enum", title="audio calls fill exactly what they report, in the requested sample format",
    technique="exhaustive enumeration of request sizes (boundary set, plus every size 0..40 and around multiples of 1024; every size 0..2200 in the thorough tier) x 10 sample types x 4 container sizes x 3 buffer layouts x 8 emulator cores x chip counts x loud/quiet x generate/play; guard-byte accounting with two poison patterns, return-value contract and a conversion table checked sample by sample against the F64 rendering of the same history",
    level_text="Each configuration renders the same call history three times (F64 reference, two poison patterns). Exactly the reported number of samples must be stored at left/right + i*sampleOffset, every other byte of the guarded buffers must keep its poison, "
               "the return value must be the request rounded down to even (0 for negatives; at most that for play, 0 only at the end of the song), supported pairs must be the documented conversion (saturation, unsigned offsets, scaling, /32767 for floats) of the integer signal recovered from the F64 run, unsupported pairs must return 0 and write nothing.",
    level_note="guards are 64 bytes on each side (the ASan leg sees anything further); relies on the cores being deterministic across three instances with identical histories (C14's subject: a difference is reported as nondeterministic-return / F64 not reproducible)",
    legs=[Leg("audio", ["models/c13_audio.cpp"], "fast", [], []), Leg("audio_asan", ["models/c13_audio.cpp"], "asan", [], [])],
    rule="one case per configuration; elementary_evaluations counts compared samples; non-trivial when accounting and conversion were fully checked",
    assumptions=E2_ASSUME[:1] + ["real emulator cores (no null chips)"],
)

PROPS["C20"] = dict(
    level="exploration", engine="enum", title="every emulator core sounds the programmed pitch and goes silent on release",
    technique="exhaustive sweep of a finite configuration grid (8 cores x 2 chip families x 9 sample rates x run-at-PCM-rate x keys 24..108; cores x rates x chips 1..3 x event bursts x endings) with signal measurements on the rendered PCM using the statement's own thresholds",
    level_text="Every configuration renders a pure-tone note on the real emulator core: idle level before any note, onset < 10 ms, RMS above 1 % FS while held, fundamental from interpolated zero crossings within 0.5 % (1 % below 22.05 kHz) for keys below 0.45 x rate at native rate, "
               "and return to within 1 % FS of the idle level 150 ms after note-off / panic / reset, for single notes and after bursts of 1..50 immediate note-on/off pairs.",
    level_note="quick tier: every third key; thorough: all keys; onset, audibility and pitch are only required at native rate (run-at-PCM-rate: silence clauses), as in the statement; the idle level is taken after the resampler's start-up samples",
    legs=[Leg("cores", ["models/c20_cores.cpp"], "fastnd", [], [], timeout_thorough=7000)],
    rule="one case per configuration; elementary_evaluations counts rendered samples; non-trivial when the full measurement stayed inside the thresholds",
    assumptions=["signal thresholds are the statement's; zero-crossing estimator validated in the design probes (0.16 % at >= 22.05 kHz)", "real cores, shipped configuration (-O2 -DNDEBUG)"],
)

PROPS["C18"] = dict(
    level="model_checking", engine="mcx", title="settings are transactional: accepted values stick, rejected change nothing",
    technique="explicit-state model checking of the real setter/getter/reset/load API (BFS by history replay from two start states) against a reference settings record; full private-state snapshot comparison around every failing call",
    level_text="All sequences up to the completed depth over 87 operations (every setter with in-range, boundary and invalid arguments, hooks, opn2_reset, emulator switches, valid/garbage/truncated/empty bank files, valid/garbage/truncated/zero-division music files, track and channel options, device-addressed SysEx, a playback probe) "
               "are executed; after every call all getters and the privately visible settings must equal the reference record, and a call that reports failure must leave the complete snapshot (player, synth, sequencer, hooks, running chips) unchanged and, for files, a non-empty error text.",
    level_note="void setters with out-of-range arguments make the affected setting 'unknown' until the next in-range set (the statement defines nothing there); whether the previous song survives a rejected music file is a don't-care; the playback clock fields (delay, carry, skip counter) are not settings and are excluded from the snapshot; emulator ids 32+ (shift aliasing) belong to C03",
    legs=[Leg("settings", ["models/c18_settings.cpp"], "fast", ["--depth", "3"], ["--depth", "5"], timeout_thorough=14000)],
    rule="BFS; a state is distinct when the snapshot or the reference record differs",
    assumptions=RT_ASSUME[:2],
)

PROPS["C03"] = dict(
    level="model_checking", engine="mcx", title="any sequence of API calls on a live instance is memory-safe and terminates",
    technique="explicit-state model checking of the whole exported C API (BFS by history replay under AddressSanitizer with annotated vectors and strict bounds): every exported function with boundary-valued arguments from 8 start states; deeper levels on an out-of-range real-time subset, on the real emulator cores, and on bank create/remove/lookup histories over ids that collide in the bank map (against a set model, to closure of the reachable structure)",
    level_text="Every sequence of up to D calls over ~400 boundary-valued operation instances covering all 90 exported functions (the op table is checked against include/opnmidi.h on every run), from 8 start states, is executed on the library. "
               "Oracle: no sanitizer report, fatal signal, abort or uncaught exception, every call inside its CPU budget, and calls documented to fail (bad chip count, emulator, device id, bank id, indices, negative sizes, unsupported formats, malformed files, NULL device) return their error value.",
    level_note="the statement's 400-call horizon is not reached: what is claimed is every sequence up to the completed depth from each start state; pointers other than the device always reference valid, exactly sized objects (malloc'ed at the request size so that ASan red zones sit directly behind them); NDEBUG build as shipped",
    legs=[
        Leg("api", ["models/c03_api.cpp"], "asan", ["--depth", "2"], ["--depth", "2"], timeout_thorough=14000),
        Leg("rtbig", ["models/c03_api.cpp"], "asan", ["--subset", "rtbig", "--depth", "3"], ["--subset", "rtbig", "--depth", "4"], timeout_thorough=14000),
        Leg("cores", ["models/c03_api.cpp"], "asan", ["--subset", "cores", "--depth", "2"], ["--subset", "cores", "--depth", "3"], timeout_thorough=14000),
        Leg("banks", ["models/c03_api.cpp"], "asan", ["--subset", "banks", "--depth", "7"], ["--subset", "banks", "--depth", "9"], timeout_thorough=14000),
        # the real-time note/pedal/arpeggio machinery from full-chip and busy start states with a focused alphabet and time steps long enough for key-on times to run out; oracle: memory safety and termination only
        # user lists at their fixed capacity (about 1800 held keys of one timbre, auto-arpeggio on / off): the next note of another timbre has to evict or evacuate;
        # and ten drum notes of one short-delay timbre on one chip (arpeggio turns inside the 30 ms minimal life time of a drum note)
        Leg("flood", RT_SRC, "asan", ["--prop", "C03", "--starts", "flood arp=1 chips=1,flood chips=1,flood arp=1 chips=2,drumflood arp=1 chips=1,drumflood chips=1", "--only-ops", FOCUS_OPS_C03, "--depth", "2"],
            ["--prop", "C03", "--starts", "flood arp=1 chips=1,flood chips=1,flood arp=1 chips=2,drumflood arp=1 chips=1,drumflood chips=1,drumflood arp=1 chips=2", "--only-ops", FOCUS_OPS_C03, "--depth", "3"]),
        Leg("rtdeep", RT_SRC, "asan", ["--prop", "C03", "--starts", "busy6same arp=1,busy6same,busy5", "--only-ops", FOCUS_OPS_C03, "--depth", "6"],
            ["--prop", "C03", "--starts", "busy6same arp=1,busy6same,busy5,nearfull chips=2", "--only-ops", FOCUS_OPS_C03, "--depth", "8"], timeout_thorough=14000),
    ],
    rule="BFS; state = full player + sequencer snapshot; the 'api' leg uses null chips, the 'cores' leg the real emulator cores",
    assumptions=RT_ASSUME[:2] + ["CPU budget 60 s per call (ITIMER_PROF); a worker death is attributed to the announced call and confirmed by replaying that history alone"],
)

PROPS["C14"] = dict(
    level="model_checking", engine="sched", title="instances are deterministic and isolated, also across threads",
    technique="exhaustive enumeration of all call-granularity interleavings of two and three instance histories on one thread for all core pairs, and preemption-bounded exhaustive schedule exploration of two real threads under a serialising scheduler (iterative context bounding over API-call boundaries and library yield points, every execution in a fresh process); free-running ThreadSanitizer pass for unsynchronised accesses",
    level_text="The observed instance's PCM and chip-register stream must equal its solo run bit for bit under every interleaving (70 per pair, 90 per triple) and every thread schedule within the completed preemption bound, for all 8 x 8 core pairs incl. both Nuked modes, differing sample rates, run-at-PCM-rate and chip families, with both histories re-writing the LFO register after the other instance may have been created; solo outputs must be identical across runs and across the 'pattern' and 'zero' auto-variable initialisation builds; "
               "the TSan leg runs the same bodies free-running on 2..8 threads and reports data races by racing object.",
    level_note="scheduling points are API-call boundaries and the guarded yield points (no locks/atomics exist in the library to hook); memory orderings weaker than sequential consistency are left to TSan's happens-before analysis of the executed accesses; TSan's set of reported races is not exhaustive",
    legs=[
        Leg("iso", ["models/c14_isolation.cpp"], "fastnd", [], []),
        Leg("iso_zero", ["models/c14_isolation.cpp"], "fastndz", [], []),
        Leg("tsan", ["models/c14_tsan.cpp"], "tsan", [], [], timeout_quick=2400, timeout_thorough=7000),
    ],
    cross_check=[("iso", "iso_zero", "solo_digest")],
    rule="one case per core pair/triple containing all its interleavings or all schedules within the preemption bound (elementary_evaluations counts them); distinct observed outcomes per pair are reported in the samples",
    assumptions=["real emulator cores", "every interleaving/schedule runs in a freshly forked process; a failing schedule is replayed twice and must reproduce"],
)
