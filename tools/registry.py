"""Registry of checks: per property the harness legs (sources, build variant, per-tier arguments),
the evidence level and the enumeration rule text."""

class Leg:
    def __init__(self, name, sources, variant, args_quick, args_thorough, cores=True, timeout_quick=1500, timeout_thorough=7000):
        self.name, self.sources, self.variant = name, sources, variant
        self.args = {"quick": args_quick, "thorough": args_thorough}
        self.cores = cores
        self.timeout = {"quick": timeout_quick, "thorough": timeout_thorough}

COMMON_ASSUME = [
    "the harness is compiled against the working-tree headers and reads private state through -fno-access-control (no layout change)",
    "exploration is bounded: only call sequences up to the completed depth from the listed start states over the stated alphabet are covered",
]

PROPS = {}
NOT_APPLICABLE = {}

PROPS["C16"] = dict(
    level="model_checking",
    title="bank API behaves as a map",
    engine="mcx",
    technique="explicit-state model checking of the real bank API (BFS by history replay, state-deduplicated) against a std::map reference model in lock step",
    level_text="Every sequence of up to D bank-API calls over a 6-key colliding universe is executed on the real library and compared after every call with a std::map "
               "reference (lookups of all keys, identifiers, instrument read-back, iteration, size/capacity, zero allocations in real-time creation); "
               "bounded model checking with complete coverage of the stated alphabet and depth, not a proof for longer histories or other keys.",
    level_note="trusted: the reference model (a std::map), the allocation counter (malloc-family interposition / sanitizer allocator hooks), gcc ASan for slot recycling; "
               "keys outside the 6-key universe and histories longer than the completed depth are not covered",
    legs=[
        Leg("map", ["models/c16_bankmap.cpp"], "fast", ["--depth", "6"], ["--depth", "8"]),
        Leg("map_asan", ["models/c16_bankmap.cpp"], "asan", ["--depth", "4"], ["--depth", "5"]),
    ],
    rule="breadth-first exploration of every sequence of bank API calls (getBank plain/Create/CreateRt, removeBank, first/next iteration, "
         "reserveBanks, setInstrument, openBankData) over a 6-key universe colliding in 3 hash buckets; a state is distinct when the concrete "
         "bucket chains, capacity, free-list length, slot contents or the std::map reference differ; every transition runs on the real API",
    assumptions=COMMON_ASSUME + ["null chips replace the emulator cores (the bank API never touches them)",
                                 "bank handles are looked up afresh before each use (the header promises no validity across mutations)"],
)
