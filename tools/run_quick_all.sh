#!/bin/sh
# Runs every quick tier once (refreshes evidence/<id>.json) and records wall time and verdict.
cd "$(dirname "$0")/.."
for p in C01 C02 C03 C04 C05 C06 C07 C08 C09 C10 C11 C12 C13 C14 C15 C16 C17 C18 C19 C20; do
  s=$(date +%s); ./check $p --tier quick > /tmp/quick_$p.log 2>&1; rc=$?; e=$(date +%s)
  echo "$p rc=$rc secs=$((e-s)) $(tail -1 /tmp/quick_$p.log | cut -c1-160)"
done
