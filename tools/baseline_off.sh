#!/bin/sh
# Runs the repository's own pinned test suite with the verification guard OFF (plain default configuration).
set -e
REPO="${VERIF_REPO:-/repo}"
B="$(mktemp -d /tmp/opn-baseline-XXXXXX)"
trap 'rm -rf "$B"' EXIT
cmake -G Ninja -S "$REPO" -B "$B" -DCMAKE_BUILD_TYPE=RelWithDebInfo -DWITH_UNIT_TESTS=ON -DCMAKE_CXX_FLAGS=-Wno-error -DCMAKE_C_FLAGS=-Wno-error >"$B/conf.log" 2>&1 || { cat "$B/conf.log"; exit 2; }
cmake --build "$B" -j"$(nproc)" >"$B/build.log" 2>&1 || { tail -50 "$B/build.log"; exit 2; }
ctest --test-dir "$B" -j8 --timeout 900 --output-on-failure
