#!/usr/bin/env python3
"""Prints the markdown tables of DESIGN.md section 4 from mutants/results/*.json, mutants/mutants.json and seeded/*/meta.json."""
import json, os, glob
V = os.path.dirname(os.path.dirname(os.path.abspath(__file__)))
res = {}
for f in glob.glob(os.path.join(V, "mutants", "results", "*.json")):
    r = json.load(open(f)); res[(r["name"], r.get("tier", "quick"))] = r
def cell(r):
    if not r: return "not run"
    if "error" in r: return "ERROR " + r["error"][:60]
    out = []
    for c, x in r.get("checks", {}).items():
        sigs = sorted(set(s.split("|", 2)[-1] for s in x["signatures"]))
        out.append(("**caught** by `%s` (%ss): %s" % (c, x["secs"], ", ".join("`%s`" % s for s in sigs[:3]))) if x["violation"] else ("MISSED by `%s`" % c))
    return "; ".join(out)
print("| own mutant | property | change | repo tests | quick check |\n|---|---|---|---|---|")
for m in json.load(open(os.path.join(V, "mutants", "mutants.json"))):
    r = res.get((m["name"], "quick"))
    print("| %s | %s | `%s`: %s | %s | %s |" % (m["name"], m["id"], m["file"], m.get("what", ""), "pass" if r and r.get("repo_tests_pass") else "?", cell(r)))
print()
print("| seeded change (independent sub-agent) | property | needs, in order to manifest | repo tests | quick check |\n|---|---|---|---|---|")
for d in sorted(glob.glob(os.path.join(V, "seeded", "*"))):
    mp = os.path.join(d, "meta.json")
    if not os.path.exists(mp): continue
    meta = json.load(open(mp)); name = "seeded/" + os.path.basename(d); r = res.get((name, "quick"))
    verdict = ("no longer property-breaking: " + meta["superseded"]) if meta.get("superseded") else cell(r)
    print("| %s | %s | %s | %s | %s |" % (os.path.basename(d), meta["property"], meta.get("needs_to_manifest", ""), "pass" if r and r.get("repo_tests_pass") else "?", verdict))
