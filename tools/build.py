#!/usr/bin/env python3
"""Build driver: compiles libOPNMIDI translation units from the *working tree* of $VERIF_REPO
(default /repo) into /verif/build/<variant>/, with a content-addressed object cache, and links
harnesses against them.  stdlib only."""
import hashlib, os, subprocess, sys, concurrent.futures, shlex, json

VERIF = os.path.dirname(os.path.dirname(os.path.abspath(__file__)))
REPO = os.environ.get("VERIF_REPO", "/repo")
BUILD = os.environ.get("VERIF_BUILD", os.path.join(VERIF, "build"))
JOBS = int(os.environ.get("VERIF_JOBS", str(os.cpu_count() or 8)))
CC = os.environ.get("VERIF_CC", "gcc")
CXX = os.environ.get("VERIF_CXX", "g++")

# Library-layer TUs (the code the properties are about) and third-party emulator cores.
LIB_TUS = [
    "src/opnmidi.cpp", "src/opnmidi_load.cpp", "src/opnmidi_midiplay.cpp", "src/opnmidi_opn2.cpp",
    "src/opnmidi_private.cpp", "src/wopn/wopn_file.c", "src/opnmidi_sequencer.cpp",
]
CORE_TUS = [
    "src/chips/gens_opn2.cpp", "src/chips/gens/Ym2612.cpp",
    "src/chips/mame_opn2.cpp", "src/chips/mame/mame_ym2612fm.c",
    "src/chips/nuked_opn2.cpp", "src/chips/nuked/ym3438.c",
    "src/chips/np2_opna.cpp", "src/chips/np2/fmgen_opna.cpp", "src/chips/np2/fmgen_file.cpp",
    "src/chips/np2/fmgen_fmgen.cpp", "src/chips/np2/fmgen_fmtimer.cpp", "src/chips/np2/fmgen_psg.cpp",
    "src/chips/mame_opna.cpp", "src/chips/mamefm/fm.cpp", "src/chips/mamefm/ymdeltat.cpp",
    "src/chips/mamefm/emu2149.c", "src/chips/mamefm/resampler.cpp",
    "src/chips/vgm_file_dumper.cpp",
    "src/chips/ymfm_opn2.cpp", "src/chips/ymfm_opna.cpp", "src/chips/ymfm/ymfm_opn.cpp",
    "src/chips/ymfm/ymfm_misc.cpp", "src/chips/ymfm/ymfm_pcm.cpp", "src/chips/ymfm/ymfm_adpcm.cpp",
    "src/chips/ymfm/ymfm_ssg.cpp",
]
# the repository's default configuration (CMakeLists.txt: all cores, sequencer, MUS, XMI, VGM dumper)
DEFINES = ["-DENABLE_END_SILENCE_SKIPPING", "-DOPNMIDI_MIDI2VGM", "-DOPNMIDI_VERIF"]

COMMON = ["-g", "-fno-omit-frame-pointer", "-w", "-fPIC"]
VARIANTS = {
    # memory-safety oracle
    "asan": dict(flags=["-O1", "-fsanitize=address", "-fsanitize-recover=address", "-D_GLIBCXX_SANITIZE_VECTOR",
                        "-DNDEBUG", "-ftrivial-auto-var-init=pattern"],
                 lib_extra=["-fsanitize=bounds-strict", "-fno-sanitize-recover=bounds,bounds-strict"],
                 core_extra=[],
                 ld=["-fsanitize=address", "-fsanitize=bounds-strict"]),
    # logic exploration, library asserts enabled
    "fast": dict(flags=["-O2", "-UNDEBUG", "-ftrivial-auto-var-init=pattern"], lib_extra=[], core_extra=[], ld=[]),
    # shipped configuration
    "fastnd": dict(flags=["-O2", "-DNDEBUG", "-ftrivial-auto-var-init=pattern"], lib_extra=[], core_extra=[], ld=[]),
    "fastndz": dict(flags=["-O2", "-DNDEBUG", "-ftrivial-auto-var-init=zero"], lib_extra=[], core_extra=[], ld=[]),
    "tsan": dict(flags=["-O1", "-fsanitize=thread", "-DNDEBUG"], lib_extra=[], core_extra=[], ld=["-fsanitize=thread"]),
    "cov": dict(flags=["-O0", "--coverage", "-DNDEBUG"], lib_extra=[], core_extra=[], ld=["--coverage"]),
}

_hdr_hash = None
def headers_hash():
    global _hdr_hash
    if _hdr_hash is None:
        h = hashlib.sha256()
        for root in ("src", "include"):
            for dp, dn, fn in sorted(os.walk(os.path.join(REPO, root))):
                dn.sort()
                for f in sorted(fn):
                    if f.endswith((".h", ".hpp", ".tcc", ".hh", ".inc", ".ipp")) :
                        p = os.path.join(dp, f)
                        h.update(os.path.relpath(p, REPO).encode()); h.update(b"\0")
                        with open(p, "rb") as fh: h.update(fh.read())
        _hdr_hash = h.hexdigest()
    return _hdr_hash

def tu_std(tu):
    if tu.endswith(".c"): return ["-std=gnu90"]
    if "ymfm" in tu: return ["-std=gnu++14"]
    return ["-std=gnu++11"]

def compile_cmd(tu, variant, islib_layer):
    v = VARIANTS[variant]
    comp = CC if tu.endswith(".c") else CXX
    return [comp] + COMMON + v["flags"] + (v["lib_extra"] if islib_layer else v["core_extra"]) + DEFINES + tu_std(tu) + \
           ["-I" + os.path.join(REPO, "include"), "-I" + os.path.join(REPO, "src")]

def run(cmd, what):
    p = subprocess.run(cmd, stdout=subprocess.PIPE, stderr=subprocess.STDOUT)
    if p.returncode != 0:
        sys.stderr.write("BUILD FAILED (%s):\n%s\n%s\n" % (what, " ".join(shlex.quote(c) for c in cmd), p.stdout.decode(errors="replace")))
        raise SystemExit(2)

def obj_for(src_abs, cmd, variant, extra_key=""):
    h = hashlib.sha256()
    h.update("\0".join(cmd).encode()); h.update(headers_hash().encode()); h.update(extra_key.encode())
    with open(src_abs, "rb") as fh: h.update(fh.read())
    d = os.path.join(BUILD, variant, "obj")
    os.makedirs(d, exist_ok=True)
    return os.path.join(d, os.path.basename(src_abs).replace(".", "_") + "-" + h.hexdigest()[:20] + ".o")

def build_one(src_abs, cmd, variant, extra_key=""):
    o = obj_for(src_abs, cmd, variant, extra_key)
    if not os.path.exists(o):
        tmp = o + ".tmp%d" % os.getpid()
        run(cmd + ["-c", src_abs, "-o", tmp], src_abs)
        os.replace(tmp, o)
    return o

def build_lib(variant, cores=True):
    tus = [(t, True) for t in LIB_TUS] + ([(t, False) for t in CORE_TUS] if cores else [])
    for t, _ in tus:
        if not os.path.exists(os.path.join(REPO, t)):
            sys.stderr.write("missing TU %s\n" % t); raise SystemExit(2)
    with concurrent.futures.ThreadPoolExecutor(JOBS) as ex:
        futs = [ex.submit(build_one, os.path.join(REPO, t), compile_cmd(t, variant, il), variant) for t, il in tus]
        return [f.result() for f in futs]

def verif_headers_hash():
    h = hashlib.sha256()
    for sub in ("engine", "models"):
        for dp, dn, fn in sorted(os.walk(os.path.join(VERIF, sub))):
            for f in sorted(fn):
                if f.endswith((".hpp", ".h", ".inc")):
                    with open(os.path.join(dp, f), "rb") as fh: h.update(f.encode()); h.update(fh.read())
    return h.hexdigest()

def build_harness(name, sources, variant, extra_cflags=(), extra_ld=(), with_lib=True, cores=True, lib_variant=None):
    """sources: paths relative to /verif. Returns path of the executable."""
    v = VARIANTS[variant]
    objs = build_lib(lib_variant or variant, cores) if with_lib else []
    vh = verif_headers_hash()
    hobjs = []
    def one(s):
        src = os.path.join(VERIF, s)
        if s.endswith(".c"):
            cmd = [CC] + COMMON + v["flags"] + DEFINES + ["-std=gnu11"] + list(extra_cflags) + \
              ["-I" + os.path.join(REPO, "include"), "-I" + os.path.join(REPO, "src"), "-I" + os.path.join(VERIF, "engine")]
        else:
            cmd = [CXX] + COMMON + v["flags"] + v["lib_extra"] + DEFINES + ["-std=gnu++17", "-fno-access-control"] + list(extra_cflags) + \
              ["-I" + os.path.join(REPO, "include"), "-I" + os.path.join(REPO, "src"), "-I" + os.path.join(VERIF, "engine"), "-I" + os.path.join(VERIF, "models")]
        return build_one(src, cmd, variant, vh)
    with concurrent.futures.ThreadPoolExecutor(JOBS) as ex:
        hobjs = list(ex.map(one, sources))
    h = hashlib.sha256(("\0".join(sorted(objs) + hobjs + list(extra_ld))).encode()).hexdigest()[:16]
    d = os.path.join(BUILD, variant, "bin"); os.makedirs(d, exist_ok=True)
    exe = os.path.join(d, "%s-%s" % (name, h))
    if not os.path.exists(exe):
        tmp = exe + ".tmp%d" % os.getpid()
        run([CXX] + hobjs + objs + v["ld"] + list(extra_ld) + ["-lpthread", "-lm", "-rdynamic", "-o", tmp], "link " + name)
        os.replace(tmp, exe)
    return exe

def check_tu_list():
    """every .c/.cpp the default CMake configuration compiles must be in our list (and vice versa)"""
    import re
    txt = open(os.path.join(REPO, "CMakeLists.txt")).read()
    found = set()
    for line in txt.splitlines():
        l = line.strip()
        if l.startswith("#"): continue
        m = re.search(r'\$\{libOPNMIDI_SOURCE_DIR\}/(src/[A-Za-z0-9_/]+\.(?:cpp|c))\b', l)
        if m: found.add(m.group(1))
    ours = set(LIB_TUS + CORE_TUS)
    return sorted(found - ours), sorted(ours - found)

if __name__ == "__main__":
    if len(sys.argv) > 1 and sys.argv[1] == "lib":
        for v in sys.argv[2:]:
            print(v, len(build_lib(v)), "objects")
    elif len(sys.argv) > 1 and sys.argv[1] == "tus":
        print(check_tu_list())
