#!/usr/bin/env python3
"""Check driver: builds the harnesses of a property from the current working tree of the repo,
runs them, confirms every distinct violation by replaying it alone, matches confirmed violations
against /verif/known_findings.json, writes /verif/evidence/<id>.json and prints the verdict lines.
stdlib only."""
import sys, os, json, subprocess, hashlib, time, re, tempfile, shutil, fnmatch

VERIF = os.path.dirname(os.path.dirname(os.path.abspath(__file__)))
# evidence/ and replays/ normally live in /verif; runs against a changed scratch tree (tools/mutation_run.py) are pointed elsewhere so that they never touch the committed evidence
OUT_ROOT = os.environ.get("VERIF_OUT", VERIF)
sys.path.insert(0, os.path.join(VERIF, "tools"))
import build
from registry import PROPS

REPO = build.REPO

def sh(cmd, **kw):
    return subprocess.run(cmd, stdout=subprocess.PIPE, stderr=subprocess.PIPE, **kw)

def cxxfilt(name):
    try:
        p = subprocess.run(["c++filt", name], stdout=subprocess.PIPE, stderr=subprocess.DEVNULL, timeout=10)
        return p.stdout.decode().strip() or name
    except Exception:
        return name

def strip_args(fn):
    """function name without argument list / template noise"""
    fn = fn.strip()
    depth = 0; out = []
    for ch in fn:
        if ch == '(' and depth == 0: break
        if ch == '<': depth += 1
        elif ch == '>': depth -= 1
        elif depth == 0: out.append(ch)
    s = "".join(out).strip()
    return s.split()[-1] if s else fn

FRAME_RE = re.compile(r'^\s*#\d+\s+0x[0-9a-f]+\s+(?:in\s+)?(.+?)\s+(\S+?):(\d+)(?::\d+)?\s*$')

def innermost_repo_frame(text):
    """first stack frame whose source file lies in the repository under test (not in /verif, not in system headers)"""
    repo = os.path.realpath(REPO)
    for line in text.splitlines():
        m = FRAME_RE.match(line)
        if not m: continue
        fn, path = m.group(1), m.group(2)
        rp = os.path.realpath(path) if os.path.isabs(path) else path
        if rp.startswith(repo + "/") and "/_build/" not in rp:
            return strip_args(fn), os.path.relpath(rp, repo)
    return None, None

def refine_signature(kind, sig, detail, stderr_text):
    text = (detail or "") + "\n" + (stderr_text or "")
    if kind == "monitor":
        return sig
    if kind == "assert" or sig.startswith("assert:"):
        m = re.search(r"ASSERT \S+?:\d+: (.*?): Assertion `(.*?)' failed", text)
        if m: return "assert:%s:%s" % (strip_args(m.group(1)), m.group(2))
        return "assert:?"
    m = re.search(r"ERROR: AddressSanitizer: ([A-Za-z0-9_-]+)", text)
    if m:
        fn, f = innermost_repo_frame(text[m.start():])
        return "asan:%s:%s" % (m.group(1), fn or "?")
    m = re.search(r"(\S+):\d+:\d+: runtime error: (.*)", text)
    if m:
        fn, f = innermost_repo_frame(text[m.start():])
        what = re.sub(r"-?\d+", "N", m.group(2))
        return "ubsan:%s:%s:%s" % (os.path.basename(m.group(1)), fn or "?", what[:80])
    if "terminate called" in text or "std::terminate" in text or "__cxa_throw" in text:
        m2 = re.search(r"terminate called after throwing an instance of '([^']+)'", text)
        top = first_named_frame(text)
        return "uncaught-exception:%s:%s" % (m2.group(1) if m2 else "?", top)
    if kind == "timeout":
        return "timeout:%s" % first_named_frame(text)
    if kind == "signal":
        m = re.search(r"signal (\d+)", text)
        return "signal%s:%s" % (m.group(1) if m else "?", first_named_frame(text))
    if kind == "nondeterministic-replay":
        return "NONDETERMINISTIC-REPLAY"
    return "%s:%s" % (kind, first_named_frame(text))

SKIP_FRAMES = ("pf::", "mcx::", "backtrace", "__assert_fail", "on_fatal_signal", "on_prof", "_start", "__libc", "main", "?", "abort", "raise", "gsignal",
               "__restore_rt", "__GI_", "__cxa", "std::", "__gnu_cxx", "_Unwind", "operator new", "operator delete", "killpg", "__sigaction", "en::", "vu::")

def first_named_frame(text):
    for line in text.splitlines():
        m = re.match(r"^#\d+ 0x[0-9a-f]+ (\S+) \((.*)\)$", line.strip())
        if not m: continue
        nm = m.group(1)
        if nm == "?": continue
        d = cxxfilt(nm) if nm.startswith("_Z") else nm
        base = strip_args(d)
        if any(base.startswith(s) or d.startswith(s) for s in SKIP_FRAMES): continue
        if "Model::" in d or "Harness" in d or d.startswith("(anonymous namespace)") or d.startswith("pl::"): continue
        return base
    return "?"

def load_findings():
    p = os.path.join(VERIF, "known_findings.json")
    if not os.path.exists(p): return []
    return json.load(open(p)).get("findings", [])

def match_finding(findings, prop, signature):
    for f in findings:
        if f.get("property") != prop or f.get("status") != "open": continue
        for pat in ([f.get("signature", "")] if f.get("signature") else []) + list(f.get("signatures", [])):
            if signature == pat or fnmatch.fnmatchcase(signature, pat):
                return f
    return None

def run_leg(prop, leg, tier, seed, workdir):
    exe = build.build_harness("%s_%s" % (prop.lower(), leg.name), leg.sources, leg.variant, cores=leg.cores)
    out = os.path.join(workdir, "%s.json" % leg.name)
    # the engines wind down by themselves at the deadline (exit 0, exhaustive:false, completed bounds reported); the hard timeout behind it only catches a stuck harness
    cmd = [exe, "--tier", tier, "--seed", str(seed), "--out", out, "--deadline", str(int(leg.timeout[tier] * 0.8))] + list(leg.args[tier])
    env = dict(os.environ); env["VERIF_REPO"] = REPO
    t0 = time.time()
    log = open(os.path.join(workdir, "%s.stderr" % leg.name), "wb")
    try:
        p = subprocess.run(cmd, stdout=subprocess.PIPE, stderr=log, env=env, cwd=workdir, timeout=leg.timeout[tier])
        rc = p.returncode
    except subprocess.TimeoutExpired:
        rc = -999
    log.close()
    if rc != 0 or not os.path.exists(out):
        tail = open(os.path.join(workdir, "%s.stderr" % leg.name), "rb").read()[-4000:].decode(errors="replace")
        sys.stderr.write("HARNESS FAILURE leg=%s rc=%s\n%s\n" % (leg.name, rc, tail))
        return exe, None, time.time() - t0
    return exe, json.load(open(out)), time.time() - t0

def replay_violation(exe, leg, v, workdir, tier="quick"):
    """re-executes one violation alone; returns (reproduced, kind, sig, detail, stderr)"""
    cmd = [exe] + list(v.get("leg_args") or leg.args[tier]) + list(v.get("replay_args") or [])
    if not v.get("replay_args"):
        cmd += ["--replay-start", str(v.get("start", 0)), "--replay-ops", ";".join(v["ops"])]
    cmd += ["--budget-scale", "10"]
    env = dict(os.environ); env["VERIF_REPO"] = REPO
    try:
        p = subprocess.run(cmd, stdout=subprocess.PIPE, stderr=subprocess.PIPE, env=env, cwd=workdir, timeout=1200)
    except subprocess.TimeoutExpired:
        return False, "replay-timeout", "", "", ""
    out = p.stdout.decode(errors="replace"); err = p.stderr.decode(errors="replace")
    m = re.search(r"^REPLAY-RESULT (.*)$", out, re.M)
    if not m: return False, "no-result", "", out[-2000:], err
    r = json.loads(m.group(1))
    return bool(r.get("violation")), r.get("kind", ""), r.get("sig", ""), r.get("detail", ""), err

def check(prop_id, tier="quick", seed=0):
    P = PROPS[prop_id]
    t0 = time.time()
    workdir = tempfile.mkdtemp(prefix="opnverif-%s-" % prop_id)
    findings = load_findings()
    ev_legs = []; confirmed = []; unconfirmed = []; known = []; harness_failed = False
    tot = dict(states=0, transitions=0, evaluations=0, distinct=0)
    samples = []
    exhaustive = True
    replay_dir = os.path.join(OUT_ROOT, "replays", prop_id)
    try:
        for leg in P["legs"]:
            exe, res, secs = run_leg(prop_id, leg, tier, seed, workdir)
            if res is None:
                harness_failed = True
                ev_legs.append({"leg": leg.name, "variant": leg.variant, "error": "harness failed"}); continue
            cov = {k: v for k, v in res.items() if k not in ("violations",)}
            cov["leg"] = leg.name; cov["variant"] = leg.variant; cov["harness_wall_s"] = round(secs, 2)
            ev_legs.append(cov)
            if res.get("engine") == "enum":
                # reference-model checks driven by enumeration: one explored trace per case
                tot["states"] += int(res.get("distinct_nontrivial", 0)); tot["transitions"] += int(res.get("evaluations", 0))
            else:
                tot["states"] += int(res.get("states", 0)); tot["transitions"] += int(res.get("transitions", 0))
            tot["evaluations"] += int(res.get("elementary_evaluations", res.get("evaluations", res.get("transitions", 0))))
            tot["distinct"] += int(res.get("distinct_nontrivial", res.get("states", 0)))
            if not res.get("exhaustive", True): exhaustive = False
            for s in res.get("samples", [])[:3]: samples.append({"leg": leg.name, "case": s})
            to_replay = []
            for v in res.get("violations", []):
                # a violation whose signature is already final (monitor verdicts) and listed as an open known finding was confirmed when it was recorded
                if v.get("kind") == "monitor":
                    pre = "%s|%s|%s" % (prop_id, leg.name, v.get("sig"))
                    kf = match_finding(findings, prop_id, pre)
                    if kf:
                        known.append((kf, pre, "")); continue
                to_replay.append(v)
            # every distinct violation is re-executed alone (a second time if the first replay does not reproduce it); the replays are independent processes, so up to 8 run side by side
            def replay_twice(v):
                r = replay_violation(exe, leg, v, workdir, tier)
                return r if r[0] else replay_violation(exe, leg, v, workdir, tier)
            import concurrent.futures
            with concurrent.futures.ThreadPoolExecutor(max_workers=8) as pool:
                replayed = list(pool.map(replay_twice, to_replay))
            for v, (ok, kind, sig, detail, err) in zip(to_replay, replayed):
                if not ok:
                    unconfirmed.append({"leg": leg.name, "sig": v.get("sig"), "kind": v.get("kind"), "ops": v.get("ops"), "replay": kind})
                    continue
                signature = "%s|%s|%s" % (prop_id, leg.name, refine_signature(kind, sig, detail, err))
                os.makedirs(replay_dir, exist_ok=True)
                rp = os.path.join(replay_dir, hashlib.sha1(signature.encode()).hexdigest()[:16] + ".json")
                rec = {"property": prop_id, "leg": leg.name, "variant": leg.variant, "sources": leg.sources, "signature": signature,
                       "kind": kind, "start": v.get("start", 0), "start_name": v.get("start_name"), "ops": v.get("ops"),
                       "replay_args": v.get("replay_args"), "leg_args": list(leg.args[tier]), "input_hex": v.get("input_hex"),
                       "detail": detail[:4000], "stderr_tail": err[-6000:], "count_in_run": v.get("count", 1)}
                json.dump(rec, open(rp, "w"), indent=1)
                f = match_finding(findings, prop_id, signature)
                if f: known.append((f, signature, rp))
                else: confirmed.append((signature, rp, detail))
        # cross-leg comparisons (e.g. output digests must not depend on the auto-variable initialisation flavour)
        for (la, lb, field) in P.get("cross_check", []):
            ra = [l for l in ev_legs if l.get("leg") == la]; rb = [l for l in ev_legs if l.get("leg") == lb]
            if ra and rb and "extra" in ra[0] and "extra" in rb[0]:
                va, vb = ra[0]["extra"].get(field), rb[0]["extra"].get(field)
                nd = ra[0]["extra"].get(field + "_nondeterministic") or rb[0]["extra"].get(field + "_nondeterministic")
                if va != vb or nd:
                    signature = "%s|%s+%s|%s" % (prop_id, la, lb, "digest-nondeterministic" if nd else "digest-depends-on-uninitialised-memory")
                    os.makedirs(replay_dir, exist_ok=True)
                    rp = os.path.join(replay_dir, hashlib.sha1(signature.encode()).hexdigest()[:16] + ".json")
                    json.dump({"property": prop_id, "signature": signature, "field": field, la: va, lb: vb, "nondeterministic": nd}, open(rp, "w"), indent=1)
                    f = match_finding(findings, prop_id, signature)
                    if f: known.append((f, signature, rp))
                    else: confirmed.append((signature, rp, "%s of leg %s = %s, of leg %s = %s %s" % (field, la, va, lb, vb, nd or "")))
    finally:
        shutil.rmtree(workdir, ignore_errors=True)
    wall = time.time() - t0
    level = P["level"]
    coverage = {"exhaustive": exhaustive, "legs": ev_legs, "samples": samples or [{"note": "no sample produced"}]}
    if level == "model_checking":
        coverage.update({"states": tot["states"], "transitions": tot["transitions"], "traces_validated_against_impl": tot["transitions"],
                         "explanation": "for mcx legs: states/transitions of the explicit-state search, every transition executed on the implementation; for enumeration legs driven by a reference model: "
                                        "states = distinct cases whose complete trace was compared, transitions = cases executed on the implementation"})
    coverage.update({"evaluations": max(tot["evaluations"], 0), "distinct_nontrivial": tot["distinct"], "rule": P["rule"]})
    coverage["known_findings_seen"] = [s for _, s, _ in known]
    coverage["unconfirmed_on_replay"] = unconfirmed
    ev = {"property_id": prop_id, "tier": tier, "seed": int(seed), "level": level, "coverage": coverage,
          "assumptions": P["assumptions"], "wall_s": round(wall, 2), "violations": len(confirmed),
          "repo_head": sh(["git", "-C", REPO, "rev-parse", "HEAD"]).stdout.decode().strip(),
          "repo_dirty": bool(sh(["git", "-C", REPO, "status", "--porcelain", "--untracked-files=no"]).stdout.strip())}
    os.makedirs(os.path.join(OUT_ROOT, "evidence"), exist_ok=True)
    json.dump(ev, open(os.path.join(OUT_ROOT, "evidence", prop_id + ".json"), "w"), indent=1)
    seen = set()
    for f, signature, rp in known:
        if f["id"] in seen: continue
        seen.add(f["id"])
        print("KNOWN-FINDING: property=%s %s [%s]" % (prop_id, f.get("description", ""), signature))
    for u in unconfirmed:
        print("WARNING: property=%s violation candidate did not reproduce when replayed alone (not reported): %s %s" % (prop_id, u["sig"], u["replay"]))
    for signature, rp, detail in confirmed:
        print("VIOLATION property=%s replay=%s" % (prop_id, rp))
        print("  signature: %s" % signature)
        print("  " + (detail or "").strip().replace("\n", "\n  ")[:1500])
    if harness_failed:
        print("ERROR: property=%s a harness failed to run; see stderr" % prop_id)
        return 2
    print("%s tier=%s: %s; states=%d transitions=%d evaluations=%d exhaustive=%s wall=%.1fs" % (
        prop_id, tier, "VIOLATED" if confirmed else "holds on everything explored", tot["states"], tot["transitions"], tot["evaluations"], exhaustive, wall))
    return 1 if confirmed else 0

def replay_file(path):
    rec = json.load(open(path))
    P = PROPS[rec["property"]]
    leg = [l for l in P["legs"] if l.name == rec["leg"]][0]
    exe = build.build_harness("%s_%s" % (rec["property"].lower(), leg.name), leg.sources, leg.variant, cores=leg.cores)
    workdir = tempfile.mkdtemp(prefix="opnverif-replay-")
    try:
        ok, kind, sig, detail, err = replay_violation(exe, leg, rec, workdir)
    finally:
        shutil.rmtree(workdir, ignore_errors=True)
    sys.stderr.write(err[-8000:])
    if ok:
        signature = "%s|%s|%s" % (rec["property"], leg.name, refine_signature(kind, sig, detail, err))
        print("VIOLATION property=%s replay=%s" % (rec["property"], path))
        print("  signature: %s\n  %s" % (signature, detail[:2000]))
        return 1
    print("replay: no violation on the current tree (%s)" % kind)
    return 0

def main(argv):
    if len(argv) < 2:
        print("usage: check <id> [--tier quick|thorough] [--replay path]"); return 2
    pid = argv[1]; tier = os.environ.get("VERIF_TIER", "quick"); seed = int(os.environ.get("VERIF_SEED", "0") or 0); rp = None
    i = 2
    while i < len(argv):
        if argv[i] == "--tier": tier = argv[i + 1]; i += 2
        elif argv[i] == "--replay": rp = argv[i + 1]; i += 2
        elif argv[i] == "--seed": seed = int(argv[i + 1]); i += 2
        else: i += 1
    if rp: return replay_file(rp)
    if pid not in PROPS:
        print("unknown property", pid); return 2
    return check(pid, tier, seed)

if __name__ == "__main__":
    sys.exit(main(sys.argv))
