#!/usr/bin/env python3
"""Applies a property-breaking change (own mutant from mutants/mutants.json, or a seeded change from
seeded/<name>/patch.diff) to a scratch worktree of the repository OUTSIDE /repo and /verif, confirms that
the repository's own tests still pass with it, runs the quick check of the property against it through
VERIF_REPO, and reports whether the check raised VIOLATION. The scratch worktree and its build output
are removed afterwards."""
import sys, os, json, subprocess, shutil, tempfile, time
VERIF = os.path.dirname(os.path.dirname(os.path.abspath(__file__)))
REPO = "/repo"

def sh(cmd, **kw): return subprocess.run(cmd, stdout=subprocess.PIPE, stderr=subprocess.STDOUT, **kw)

def run_one(prop, name, apply_fn, checks=None, tier="quick", skip_tests=False):
    wt = tempfile.mkdtemp(prefix="opn-mut-"); os.rmdir(wt)
    bd = wt + "-build"
    r = sh(["git", "-C", REPO, "worktree", "add", "-q", "--detach", wt, "HEAD"])
    if r.returncode: return {"name": name, "error": r.stdout.decode()}
    res = {"property": prop, "name": name}
    try:
        ok, msg = apply_fn(wt)
        if not ok: res["error"] = "patch does not apply: " + msg; return res
        if not skip_tests:
            env = dict(os.environ); env["VERIF_REPO"] = wt
            t = sh(["sh", os.path.join(VERIF, "tools", "baseline_off.sh")], env=env)
            res["repo_tests_pass"] = t.returncode == 0 and b"100% tests passed" in t.stdout
            if not res["repo_tests_pass"]: res["tests_output"] = t.stdout.decode()[-600:]
        for c in (checks or [prop]):
            env = dict(os.environ); env["VERIF_REPO"] = wt; env["VERIF_BUILD"] = bd; env["VERIF_OUT"] = bd + "-out"
            t0 = time.time(); t = sh([os.path.join(VERIF, "check"), c, "--tier", tier], env=env, cwd=VERIF)
            out = t.stdout.decode()
            res.setdefault("checks", {})[c] = {"rc": t.returncode, "violation": "VIOLATION property=" in out, "secs": round(time.time() - t0, 1),
                                              "signatures": [l.strip()[11:] for l in out.splitlines() if l.strip().startswith("signature:")][:6]}
    finally:
        sh(["git", "-C", REPO, "worktree", "remove", "--force", wt]); shutil.rmtree(bd, ignore_errors=True); shutil.rmtree(bd + "-out", ignore_errors=True); shutil.rmtree(wt, ignore_errors=True)
    return res

def own(m):
    def ap(wt):
        p = os.path.join(wt, m["file"]); s = open(p).read()
        if s.count(m["old"]) != 1: return False, "%d occurrences of the anchor text" % s.count(m["old"])
        open(p, "w").write(s.replace(m["old"], m["new"])); return True, ""
    return ap

def seeded(d):
    def ap(wt):
        r = sh(["git", "-C", wt, "apply", os.path.join(d, "patch.diff")]); return r.returncode == 0, r.stdout.decode()
    return ap

if __name__ == "__main__":
    args = sys.argv[1:]; tier = "quick"
    if "--tier" in args: i = args.index("--tier"); tier = args[i + 1]; del args[i:i + 2]
    only_seeded = "--seeded" in args; only_own = "--own" in args; sel = [a for a in args if not a.startswith("--")]
    out = []; resdir = os.path.join(VERIF, "mutants", "results"); os.makedirs(resdir, exist_ok=True)
    def record(r):
        r["tier"] = tier; print(json.dumps(r)); sys.stdout.flush(); out.append(r)
        json.dump(r, open(os.path.join(resdir, r["name"].replace("/", "_") + ("" if tier == "quick" else "." + tier) + ".json"), "w"), indent=1)
    muts = json.load(open(os.path.join(VERIF, "mutants", "mutants.json")))
    for m in muts:
        if only_seeded or (sel and m["id"] not in sel and m["name"] not in sel): continue
        record(run_one(m["id"], m["name"], own(m), tier=tier))
    sd = os.path.join(VERIF, "seeded")
    for name in sorted(os.listdir(sd)) if os.path.isdir(sd) else []:
        meta_p = os.path.join(sd, name, "meta.json")
        if not os.path.exists(meta_p): continue
        meta = json.load(open(meta_p))
        if only_own or (sel and meta["property"] not in sel and name not in sel): continue
        record(run_one(meta["property"], "seeded/" + name, seeded(os.path.join(sd, name)), checks=meta.get("checks"), tier=tier))
