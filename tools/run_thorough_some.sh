#!/bin/sh
# Runs the thorough tier of the given properties (default: all) and records wall time and verdict.
cd "$(dirname "$0")/.."
for p in ${@:-C16 C05 C09 C10 C11 C12 C19 C17 C15 C18 C06 C04 C13 C20 C08 C07 C02 C03 C14 C01}; do
  s=$(date +%s); ./check $p --tier thorough > /tmp/thorough_$p.log 2>&1; rc=$?; e=$(date +%s)
  echo "$p rc=$rc secs=$((e-s)) $(tail -1 /tmp/thorough_$p.log | cut -c1-160)"
done
