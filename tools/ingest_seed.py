#!/usr/bin/env python3
"""Confirms a seeded change delivered by a sub-agent in <dir>/SEED (patch.diff, demo.cpp, README.md):
the patch applies to /repo's HEAD in a fresh scratch worktree, the repository's own tests pass with it,
the demonstration FAILS with it and PASSES without it. On success copies it to /verif/seeded/<name>/ with
meta.json. Scratch worktrees and builds are removed."""
import sys, os, json, subprocess, shutil, tempfile
VERIF = os.path.dirname(os.path.dirname(os.path.abspath(__file__)))
def sh(cmd, **kw): return subprocess.run(cmd, stdout=subprocess.PIPE, stderr=subprocess.STDOUT, **kw)
def build(wt, bd):
    r = sh(["cmake", "-G", "Ninja", "-S", wt, "-B", bd, "-DCMAKE_BUILD_TYPE=RelWithDebInfo", "-DWITH_UNIT_TESTS=ON", "-DCMAKE_CXX_FLAGS=-Wno-error", "-DCMAKE_C_FLAGS=-Wno-error"])
    if r.returncode: return False, r.stdout.decode()[-800:]
    r = sh(["cmake", "--build", bd, "-j16"])
    return r.returncode == 0, r.stdout.decode()[-800:]
def demo(wt, bd, src):
    exe = os.path.join(bd, "seed_demo")
    r = sh(["g++", "-O1", "-g", "-std=gnu++11", "-DOPNMIDI_UNSTABLE_API", "-I" + os.path.join(wt, "include"), "-I" + os.path.join(wt, "src"), src, os.path.join(bd, "libOPNMIDI.a"), "-lm", "-lpthread", "-o", exe])
    if r.returncode: return None, "demo does not compile: " + r.stdout.decode()[-800:]
    try: r = sh([exe], cwd=wt, timeout=600)
    except subprocess.TimeoutExpired: return 124, "demo timed out"
    return r.returncode, r.stdout.decode()[-1200:]
def main(prop, src_dir, name, needs):
    seed = os.path.join(src_dir, "SEED")
    for f in ("patch.diff", "demo.cpp", "README.md"):
        if not os.path.exists(os.path.join(seed, f)): print("missing", f); return 1
    wt = tempfile.mkdtemp(prefix="opn-ingest-"); os.rmdir(wt)
    sh(["git", "-C", "/repo", "worktree", "add", "-q", "--detach", wt, "HEAD"])
    out = {"property": prop, "name": name}
    try:
        # the agent's README refers to paths inside its own worktree: run the demo from an identical layout
        demo_src = os.path.join(wt, "seed_demo.cpp"); txt = open(os.path.join(seed, "demo.cpp")).read().replace(src_dir, wt); open(demo_src, "w").write(txt)
        ok, msg = build(wt, wt + "/_b0")
        if not ok: print("clean build failed", msg); return 1
        rc0, o0 = demo(wt, wt + "/_b0", demo_src)
        r = sh(["git", "-C", wt, "apply", os.path.join(seed, "patch.diff")])
        if r.returncode: print("patch does not apply:", r.stdout.decode()); return 1
        ok, msg = build(wt, wt + "/_b1")
        if not ok: print("patched build failed", msg); return 1
        t = sh(["ctest", "--test-dir", wt + "/_b1", "-j8", "--timeout", "900"])
        tests_ok = t.returncode == 0 and b"100% tests passed" in t.stdout
        rc1, o1 = demo(wt, wt + "/_b1", demo_src)
        out.update({"demo_rc_without_change": rc0, "demo_rc_with_change": rc1, "repo_tests_pass_with_change": tests_ok})
        print(json.dumps(out)); print("--- demo with change:\n" + (o1 or "")[-600:])
        if rc0 != 0 or rc1 in (0, None) or not tests_ok: print("NOT CONFIRMED"); print("--- demo without change:\n" + (o0 or "")[-600:]); return 1
        dst = os.path.join(VERIF, "seeded", name); os.makedirs(dst, exist_ok=True)
        for f in ("patch.diff", "README.md"): shutil.copy(os.path.join(seed, f), os.path.join(dst, f))
        open(os.path.join(dst, "demo.cpp"), "w").write(open(os.path.join(seed, "demo.cpp")).read())
        meta = {"property": prop, "breaks": "see README.md", "needs_to_manifest": needs, "origin": "independent sub-agent given only the property text and a scratch worktree",
                "confirmed": {"patch_applies_to_repo_head": True, "repo_tests_pass_with_change": True, "demo_exit_without_change": rc0, "demo_exit_with_change": rc1,
                              "commands": ["cmake -G Ninja -S <wt> -B <wt>/_b1 -DWITH_UNIT_TESTS=ON && cmake --build && ctest", "g++ demo.cpp libOPNMIDI.a && ./demo (with and without the patch)"]}}
        json.dump(meta, open(os.path.join(dst, "meta.json"), "w"), indent=1)
        print("CONFIRMED ->", dst); return 0
    finally:
        sh(["git", "-C", "/repo", "worktree", "remove", "--force", wt]); shutil.rmtree(wt, ignore_errors=True)
if __name__ == "__main__":
    sys.exit(main(sys.argv[1], sys.argv[2], sys.argv[3], sys.argv[4] if len(sys.argv) > 4 else ""))
