#!/usr/bin/env python3
"""Offline setup: pre-builds the library object caches for the variants the quick checks use."""
import os, sys
sys.path.insert(0, os.path.dirname(os.path.abspath(__file__)))
import build
for v in ("fast", "asan", "fastnd"):
    n = len(build.build_lib(v))
    print("built variant %s: %d objects" % (v, n))
missing, extra = build.check_tu_list()
if missing or extra:
    print("WARNING: TU list differs from CMakeLists.txt: missing=%s extra=%s" % (missing, extra))
print("setup ok")
