#!/usr/bin/env python3
"""Writes /verif/MANIFEST.json from the registry (claimed checks) and the fixed property list."""
import json, os, sys
VERIF = os.path.dirname(os.path.dirname(os.path.abspath(__file__)))
sys.path.insert(0, os.path.join(VERIF, "tools"))
from registry import PROPS, NOT_APPLICABLE

props = [json.loads(l) for l in open(os.path.join(VERIF, "properties.jsonl"))]
checks = []
for p in props:
    pid = p["id"]
    if pid not in PROPS: continue
    P = PROPS[pid]
    checks.append({
        "property_id": pid,
        "quick_cmd": "./check %s --tier quick" % pid,
        "thorough_cmd": "./check %s --tier thorough" % pid,
        "evidence_file": "evidence/%s.json" % pid,
        "replay_cmd_template": "./check %s --replay {path}" % pid,
        "engine": P.get("engine", "mcx"),
        "level_claimed": {"category": P["level"], "text": P["level_text"], "design_ref": "DESIGN.md section 3, " + pid},
        "level_note": P["level_note"],
        "technique": P["technique"],
    })
na = []
for p in props:
    if p["id"] not in PROPS:
        na.append({"property_id": p["id"], "reason": NOT_APPLICABLE.get(p["id"], "check not built yet in this revision of /verif (planned, see DESIGN.md); nothing is claimed for it")})
m = {
    "version": 1,
    "setup_cmd": "python3 tools/setup.py",
    "hooks": {
        "guard": "OPNMIDI_VERIF",
        "enable": "tools/build.py compiles every library TU of /repo's working tree with -DOPNMIDI_VERIF into /verif/build/<variant>/ (content-addressed object cache) and links the harness against them",
        "baseline_off_cmd": "sh tools/baseline_off.sh",
        "source_commits": json.load(open(os.path.join(VERIF, "tools", "hook_commits.json"))),
        "add_only": True,
    },
    "engines": [
        {"name": "mcx", "path": "engine/mcx.hpp", "kind_free_text": "explicit-state breadth-first exploration of the real API by history replay, forked workers with crash isolation (engine/pfor.hpp), lock-step reference models and invariants",
         "serves_properties": sorted(k for k, v in PROPS.items() if v.get("engine", "mcx") == "mcx")},
        {"name": "enum", "path": "engine/enumx.hpp", "kind_free_text": "exhaustive index-addressable enumeration of finite input/configuration families against an oracle",
         "serves_properties": sorted(k for k, v in PROPS.items() if v.get("engine") == "enum")},
        {"name": "sched", "path": "engine/sched.hpp", "kind_free_text": "preemption-bounded exhaustive schedule exploration of real threads under a serialising scheduler",
         "serves_properties": sorted(k for k, v in PROPS.items() if v.get("engine") == "sched")},
    ],
    "checks": checks,
    "not_applicable": na,
    "notes": "All checks rebuild libOPNMIDI from $VERIF_REPO (default /repo) working-tree sources with the OPNMIDI_VERIF guard on. known_findings.json lists genuine defects that are recorded rather than repaired.",
}
json.dump(m, open(os.path.join(VERIF, "MANIFEST.json"), "w"), indent=1)
print("MANIFEST.json: %d checks, %d not_applicable" % (len(checks), len(na)))
